package main

// Normalisation: helpers that are new relative to the pinned tree are inlined back into their callers
// before the rules look at the program.
//
// The rules find their instances by role, but most of them then reason about ONE function: "the store in the
// function that starts the hand", "every path of the continue step". The commonest behaviour-preserving
// refactoring — extract function — moves such a store into a helper the rule has never heard of, and a rule
// that does not see it there would raise an alarm on a tree on which the property holds. Instead of making
// a hundred rules inter-procedural, the program is brought back to the shape the rules were written for:
// every function or method whose (canonical) name is not among the functions of the pinned tree
// (baseline_funcs.go) and all of whose uses are plain calls is expanded at its call sites, in source, and the
// result is loaded again through an overlay. Supported call positions:
//
//	h(a…)                       a statement
//	return h(a…)                h has the caller's result arity (the helper's returns become the caller's)
//	x, y := h(a…) / = / if x := h(a…); c {…}
//	… h(a…) …                   anywhere in the expression of an expression / return / assignment statement or
//	                            of an if condition (single result; not under && / ||, not in a closure): the
//	                            value is computed into a temporary in front of the statement
//
// Parameters (and the receiver) become local bindings of the argument expressions, evaluated once, in order,
// as a call evaluates them — unless the argument is the never-assigned variable of the same name, which is
// then used directly. A helper with one trailing return is expanded in line; one with several returns is
// expanded inside a labelled one-armed switch, each "return e" becoming "result = e; break label".
// A never-assigned parameter whose argument is an identifier or a constant is replaced by it. A function-typed
// parameter that the body only calls (or compares with nil) and that is bound to a function literal (at the call
// or through a once-assigned local of the caller), to a method value over plain identifiers or to nil is reduced:
// its calls expand to the literal (as statements, or as the returned expression under || and &&), nil tests fold.
// A helper used as a value becomes the literal it stands for; a helper in another file is expanded when the
// imports its body needs can be added. Helpers with defer, recover, labels, named results or variadic parameters
// and recursive helpers are left alone: the rules then see the program as it is (and may report what they cannot
// place). An exported new helper is expanded at its call sites too, but its
// declaration stays: it is new API surface and is judged as such. A bug inside an extracted helper is inlined
// along with it and is judged where it now sits. The normalised program is only analysed, never run.

import (
	"bytes"
	"fmt"
	"go/ast"
	"go/token"
	"go/types"
	"os"
	"regexp"
	"sort"
	"strconv"
	"strings"

	"golang.org/x/tools/go/packages"
)

var inlNameRe = regexp.MustCompile(`\binl(\d+)[ARLS]`)

type inlineSite struct {
	file string
	s, e int // byte range to replace
	text func() (string, bool)
}

type normaliser struct {
	pending    []*inlineSite // persistent sites a call-site expansion adds besides its own (a blank use of a local closure)
	blanked    map[types.Object]bool
	lastSubsts []*inlineSite
	extra      map[string][]*inlineSite // substitutions active while one helper body is being rendered
	pk         *packages.Package
	fset       *token.FileSet
	src        map[string][]byte
	sites      map[string][]*inlineSite // by file
	seq        int
}

func (n *normaliser) off(p token.Pos) int { return n.fset.Position(p).Offset }

func (n *normaliser) srcOf(file string, s, e token.Pos) string {
	return string(n.src[file][n.off(s):n.off(e)])
}

// render returns src[s:e] of file with every registered site inside the range replaced (recursively).
func (n *normaliser) render(file string, s, e int) (string, bool) {
	var inner []*inlineSite
	for _, st := range n.sites[file] {
		if st.s >= s && st.e <= e {
			inner = append(inner, st)
		}
	}
	for _, st := range n.extra[file] {
		if st.s >= s && st.e <= e {
			inner = append(inner, st)
		}
	}
	sort.SliceStable(inner, func(i, j int) bool {
		if inner[i].s != inner[j].s {
			return inner[i].s < inner[j].s
		}
		// an insertion (empty range) comes before a replacement starting there; of two replacements starting
		// at the same place the outer one is rendered (it renders what is nested inside it itself)
		ei, ej := inner[i].e == inner[i].s, inner[j].e == inner[j].s
		if ei != ej {
			return ei
		}
		return inner[i].e > inner[j].e
	})
	var b bytes.Buffer
	pos := s
	for _, st := range inner {
		if st.s < pos {
			continue // nested inside a site already rendered
		}
		b.Write(n.src[file][pos:st.s])
		t, ok := st.text()
		if !ok {
			if os.Getenv("TABLELINT_DEBUG_NORMALISE") != "" {
				fmt.Fprintf(os.Stderr, "normalise: cannot render the replacement of %s[%d:%d] %q\n", file, st.s, st.e, truncate(string(n.src[file][st.s:st.e]), 80))
			}
			return "", false
		}
		b.WriteString(t)
		pos = st.e
	}
	b.Write(n.src[file][pos:e])
	return b.String(), true
}

type nHelper struct {
	decl *ast.FuncDecl
	obj  *types.Func
	file string
	rets []*ast.ReturnStmt
}

// normalise builds an overlay in which the helpers selected by isNew are inlined. It returns the overlay,
// the names of the helpers inlined, and the names of new helpers it had to leave alone.
func normalise(pkgs []*packages.Package, overlay map[string][]byte, readFile func(string) ([]byte, error), isNew func(*types.Func) bool) (map[string][]byte, []string, []string) {
	var inlined, left []string
	out := map[string][]byte{}
	for _, pk := range pkgs {
		if !isProdPath(pk.PkgPath) || pk.TypesInfo == nil {
			continue
		}
		n := &normaliser{pk: pk, fset: pk.Fset, src: map[string][]byte{}, sites: map[string][]*inlineSite{}, extra: map[string][]*inlineSite{}}
		fileOf := map[*ast.File]string{}
		parent := map[ast.Node]ast.Node{}
		for _, f := range pk.Syntax {
			fn := pk.Fset.Position(f.Pos()).Filename
			if strings.HasSuffix(fn, "_test.go") {
				continue
			}
			fileOf[f] = fn
			if b, ok := overlay[fn]; ok {
				n.src[fn] = b
			} else if b, err := readFile(fn); err == nil {
				n.src[fn] = b
			}
			// temporaries of an earlier round keep their names: number on from the highest one in use
			for _, m := range inlNameRe.FindAllSubmatch(n.src[fn], -1) {
				if k, err := strconv.Atoi(string(m[1])); err == nil && k > n.seq {
					n.seq = k
				}
			}
			var stack []ast.Node
			ast.Inspect(f, func(nd ast.Node) bool {
				if nd == nil {
					stack = stack[:len(stack)-1]
					return true
				}
				if len(stack) > 0 {
					parent[nd] = stack[len(stack)-1]
				}
				stack = append(stack, nd)
				return true
			})
		}
		keepImports := map[string]map[string]bool{}   // file → import paths the bodies inlined into it use
		needImports := map[string]map[string]string{} // file → local name → path (for helper bodies moved in from another file)
		pkgClauseEnd := map[string]int{}
		for f, fn := range fileOf {
			pkgClauseEnd[fn] = n.off(f.Name.End())
		}
		var cands []*nHelper
		for f, fn := range fileOf {
			for _, d := range f.Decls {
				fd, ok := d.(*ast.FuncDecl)
				if !ok || fd.Body == nil || fd.Name.Name == "init" || fd.Name.Name == "main" {
					continue
				}
				obj, _ := pk.TypesInfo.Defs[fd.Name].(*types.Func)
				if obj == nil || !isNew(obj) {
					continue
				}
				cands = append(cands, &nHelper{decl: fd, obj: obj, file: fn, rets: returnsOutsideClosures(fd.Body)})
			}
		}
		sort.Slice(cands, func(i, j int) bool { return cands[i].obj.Name() < cands[j].obj.Name() })
		candSet := map[*types.Func]bool{}
		for _, cd := range cands {
			if helperInlinable(cd.decl) {
				candSet[cd.obj] = true
			}
		}
		for _, h := range cands {
			name := h.obj.Name()
			ok := helperInlinable(h.decl)
			var sites []*inlineSite
			if ok {
				for f, fn := range fileOf {
					ast.Inspect(f, func(nd ast.Node) bool {
						id, isID := nd.(*ast.Ident)
						if !isID || !ok || pk.TypesInfo.Uses[id] != types.Object(h.obj) {
							return true
						}
						var fun ast.Node = id
						if sel, isSel := parent[id].(*ast.SelectorExpr); isSel && sel.Sel == id {
							fun = sel
						}
						if keepImports[fn] == nil {
							keepImports[fn] = map[string]bool{}
						}
						ast.Inspect(h.decl, func(x ast.Node) bool {
							if xi, isI := x.(*ast.Ident); isI {
								if pn, isP := pk.TypesInfo.Uses[xi].(*types.PkgName); isP {
									keepImports[fn][pn.Imported().Path()] = true
								}
							}
							return true
						})
						if fn != h.file {
							missing, okI := importsNeeded(pk, h.decl, f)
							if !okI && os.Getenv("TABLELINT_DEBUG_NORMALISE") != "" {
								fmt.Fprintf(os.Stderr, "normalise: %s: imports of %s cannot be added to %s\n", name, h.file, fn)
							}
							if !okI {
								ok = false
								return true
							}
							for nm, path := range missing {
								if needImports[fn] == nil {
									needImports[fn] = map[string]string{}
								}
								needImports[fn][nm] = path
							}
						}
						call, isCall := parent[fun].(*ast.CallExpr)
						if isCall && call.Fun == fun.(ast.Expr) {
							// an argument that is itself a call of another new helper: that one is expanded first, this one
							// in the next round
							nestedNew := false
							for _, a := range call.Args {
								ast.Inspect(a, func(x ast.Node) bool {
									if xi, isI := x.(*ast.Ident); isI {
										if fo, isF := pk.TypesInfo.Uses[xi].(*types.Func); isF && fo != h.obj && candSet[fo] {
											nestedNew = true
										}
									}
									return true
								})
							}
							if nestedNew {
								ok = false
								return true
							}
						}
						if !isCall || call.Fun != fun.(ast.Expr) {
							// used as a value (a callback handed on): it becomes the function literal it stands for
							st := n.valueSite(h, fun.(ast.Expr), fn)
							if st == nil {
								if os.Getenv("TABLELINT_DEBUG_NORMALISE") != "" {
									fmt.Fprintf(os.Stderr, "normalise: %s: value use at %s not supported\n", name, n.fset.Position(id.Pos()))
								}
								ok = false
								return true
							}
							sites = append(sites, st)
							return true
						}
						sts := n.site(h, call, fn, parent)
						if sts == nil {
							if os.Getenv("TABLELINT_DEBUG_NORMALISE") != "" {
								fmt.Fprintf(os.Stderr, "normalise: %s: call site at %s not supported\n", name, n.fset.Position(call.Pos()))
							}
							ok = false
							return true
						}
						sites = append(sites, sts...)
						return true
					})
				}
			}
			if !ok || len(sites) == 0 {
				if os.Getenv("TABLELINT_DEBUG_NORMALISE") != "" {
					fmt.Fprintf(os.Stderr, "normalise: %s left: inlinable=%v ok=%v sites=%d\n", name, helperInlinable(h.decl), ok, len(sites))
				}
				left = append(left, name)
				continue
			}
			for _, st := range sites {
				n.sites[st.file] = append(n.sites[st.file], st)
			}
			if !h.decl.Name.IsExported() {
				ds := h.decl.Pos()
				if h.decl.Doc != nil {
					ds = h.decl.Doc.Pos()
				}
				n.sites[h.file] = append(n.sites[h.file], &inlineSite{file: h.file, s: n.off(ds), e: n.off(h.decl.End()), text: func() (string, bool) { return "", true }})
			}
			inlined = append(inlined, name)
		}
		// an import that only deleted helper declarations used must go with them
		for f, fn := range fileOf {
			var gone [][2]int
			for _, st := range n.sites[fn] {
				if st.e > st.s {
					if t, ok := st.text(); ok && t == "" {
						gone = append(gone, [2]int{st.s, st.e})
					}
				}
			}
			if len(gone) == 0 {
				continue
			}
			used := map[string]bool{}
			ast.Inspect(f, func(nd ast.Node) bool {
				id, isID := nd.(*ast.Ident)
				if !isID {
					return true
				}
				pn, isPkg := pk.TypesInfo.Uses[id].(*types.PkgName)
				if !isPkg {
					return true
				}
				o := n.off(id.Pos())
				for _, g := range gone {
					if o >= g[0] && o < g[1] {
						return true
					}
				}
				used[pn.Imported().Path()] = true
				return true
			})
			for path := range keepImports[fn] {
				used[path] = true
			}
			for _, d := range f.Decls {
				gd, isG := d.(*ast.GenDecl)
				if !isG || gd.Tok != token.IMPORT {
					continue
				}
				var drop []*ast.ImportSpec
				for _, sp := range gd.Specs {
					is := sp.(*ast.ImportSpec)
					path := strings.Trim(is.Path.Value, "\"")
					if is.Name != nil && (is.Name.Name == "_" || is.Name.Name == ".") {
						continue
					}
					if !used[path] {
						drop = append(drop, is)
					}
				}
				if len(drop) == 0 {
					continue
				}
				if len(drop) == len(gd.Specs) {
					n.sites[fn] = append(n.sites[fn], &inlineSite{file: fn, s: n.off(gd.Pos()), e: n.off(gd.End()), text: func() (string, bool) { return "", true }})
					continue
				}
				for _, is := range drop {
					n.sites[fn] = append(n.sites[fn], &inlineSite{file: fn, s: n.off(is.Pos()), e: n.off(is.End()), text: func() (string, bool) { return "", true }})
				}
			}
		}
		for file, imps := range needImports {
			if len(n.sites[file]) == 0 {
				continue
			}
			var names []string
			for nm := range imps {
				names = append(names, nm)
			}
			sort.Strings(names)
			text := "\n"
			for _, nm := range names {
				text += fmt.Sprintf("import %s %q\n", nm, imps[nm])
			}
			at := pkgClauseEnd[file]
			t := text
			n.sites[file] = append(n.sites[file], &inlineSite{file: file, s: at, e: at, text: func() (string, bool) { return t, true }})
		}
		for file := range n.sites {
			t, ok := n.render(file, 0, len(n.src[file]))
			if !ok {
				return nil, nil, append(left, inlined...)
			}
			out[file] = []byte(t)
		}
	}
	sort.Strings(inlined)
	sort.Strings(left)
	return out, inlined, left
}

func helperInlinable(fd *ast.FuncDecl) bool {
	if fd.Type.TypeParams != nil {
		return false
	}
	if isMembershipDecl(fd) {
		return false // stays a call: the analyser reads it as the membership test it is (isContainsHelper)
	}
	if fd.Type.Results != nil {
		for _, r := range fd.Type.Results.List {
			if len(r.Names) > 0 {
				return false
			}
		}
	}
	for _, p := range fd.Type.Params.List {
		if _, isEll := p.Type.(*ast.Ellipsis); isEll {
			return false
		}
	}
	if fd.Recv != nil && (len(fd.Recv.List) != 1 || len(fd.Recv.List[0].Names) != 1) {
		return false
	}
	ok := true
	ast.Inspect(fd.Body, func(nd ast.Node) bool {
		switch x := nd.(type) {
		case *ast.DeferStmt, *ast.LabeledStmt:
			ok = false
		case *ast.BranchStmt:
			if x.Label != nil {
				ok = false
			}
		case *ast.CallExpr:
			if id, isID := x.Fun.(*ast.Ident); isID && id.Name == "recover" {
				ok = false
			}
		case *ast.Ident:
			if x.Name == fd.Name.Name && x != fd.Name {
				ok = false // possibly recursive
			}
		}
		return ok
	})
	return ok
}

// returnsOutsideClosures lists the return statements of the body that belong to the function itself.
func returnsOutsideClosures(body *ast.BlockStmt) []*ast.ReturnStmt {
	var out []*ast.ReturnStmt
	ast.Inspect(body, func(nd ast.Node) bool {
		switch x := nd.(type) {
		case *ast.FuncLit:
			return false
		case *ast.ReturnStmt:
			out = append(out, x)
		}
		return true
	})
	return out
}

func inList(p ast.Node) bool {
	switch p.(type) {
	case *ast.BlockStmt, *ast.CaseClause, *ast.CommClause:
		return true
	}
	return false
}

// site plans the expansion of one call of helper h (one or two replacement sites; nil: not supported).
func (n *normaliser) siteRaw(h *nHelper, call *ast.CallExpr, cf string, parent map[ast.Node]ast.Node) []*inlineSite {
	pk, file := n.pk, h.file // file: where the helper's text lives; cf: the file of the call
	nRes := 0
	if h.decl.Type.Results != nil {
		nRes = len(h.decl.Type.Results.List)
	}
	var caller *ast.FuncDecl
	inClosure := false
	for x := parent[call]; x != nil; x = parent[x] {
		switch y := x.(type) {
		case *ast.FuncDecl:
			caller = y
		case *ast.FuncLit:
			inClosure = true
		}
	}
	if caller == nil || caller == h.decl {
		return nil
	}
	var last ast.Stmt
	if len(h.decl.Body.List) > 0 {
		last = h.decl.Body.List[len(h.decl.Body.List)-1]
	}
	trailingOnly := len(h.rets) == 0 || (len(h.rets) == 1 && ast.Stmt(h.rets[0]) == last)

	// ---- where does the call sit?
	shape := ""
	var host ast.Stmt // the statement that is replaced
	var assign *ast.AssignStmt
	switch p := parent[call].(type) {
	case *ast.ExprStmt:
		if nRes == 0 && inList(parent[p]) {
			shape, host = "stmt", p
			callerVoid := caller.Type.Results == nil || len(caller.Type.Results.List) == 0
			if callerVoid && !inClosure && len(caller.Body.List) > 0 && caller.Body.List[len(caller.Body.List)-1] == ast.Stmt(p) {
				shape = "tail"
			}
		}
	case *ast.ReturnStmt:
		if len(p.Results) == 1 && nRes > 0 && !inClosure && inList(parent[p]) {
			cr := 0
			named := false
			if caller.Type.Results != nil {
				for _, r := range caller.Type.Results.List {
					named = named || len(r.Names) > 0
					cr++
				}
			}
			if !named && cr == nRes {
				shape, host = "tail", p
			}
		}
	case *ast.AssignStmt:
		if len(p.Rhs) == 1 && len(p.Lhs) == nRes && nRes > 0 && (p.Tok == token.DEFINE || p.Tok == token.ASSIGN) {
			if inList(parent[p]) {
				shape, host, assign = "assign", p, p
			} else if ifs, isIf := parent[p].(*ast.IfStmt); isIf && ifs.Init == ast.Stmt(p) && inList(parent[ifs]) {
				shape, host, assign = "if-init", ifs, p
			}
		}
	}
	if shape == "" {
		// expression position: the value is computed in front of the enclosing statement
		if nRes != 1 {
			return nil
		}
		var st ast.Stmt
		var prev ast.Node = call
		for x := parent[call]; x != nil; prev, x = x, parent[x] {
			if be, isB := x.(*ast.BinaryExpr); isB && (be.Op == token.LAND || be.Op == token.LOR) && be.Y == prev {
				return nil
			}
			if _, isL := x.(*ast.FuncLit); isL {
				return nil
			}
			if s, isS := x.(ast.Stmt); isS {
				st = s
				break
			}
		}
		switch s := st.(type) {
		case *ast.ExprStmt, *ast.ReturnStmt, *ast.AssignStmt, *ast.IncDecStmt:
			if !inList(parent[s]) {
				return nil
			}
		case *ast.IfStmt:
			// only in the condition, and not an else-if
			if !(call.Pos() >= s.Cond.Pos() && call.End() <= s.Cond.End()) || !inList(parent[s]) {
				return nil
			}
		default:
			return nil
		}
		shape, host = "expr", st
	}

	// ---- parameter bindings
	assigned := map[string]bool{}
	ast.Inspect(h.decl.Body, func(nd ast.Node) bool {
		mark := func(e ast.Expr) {
			if id, ok := e.(*ast.Ident); ok {
				assigned[id.Name] = true
			}
		}
		switch x := nd.(type) {
		case *ast.AssignStmt:
			for _, l := range x.Lhs {
				mark(l)
			}
		case *ast.IncDecStmt:
			mark(x.X)
		case *ast.UnaryExpr:
			if x.Op == token.AND {
				mark(x.X)
			}
		case *ast.RangeStmt:
			if x.Key != nil {
				mark(x.Key)
			}
			if x.Value != nil {
				mark(x.Value)
			}
		}
		return true
	})
	sameName := func(param string, arg ast.Expr) bool {
		id, ok := arg.(*ast.Ident)
		return ok && id.Name == param && !assigned[param]
	}
	var bNames, bArgs, bTypes []string
	// a never-assigned parameter whose argument is a plain identifier or a constant is replaced by that
	// argument wherever the body uses it (no copy is made: the rules see the caller's own value)
	var substs []*inlineSite
	defer func() { n.lastSubsts = substs }()
	declared := map[string]bool{}
	ast.Inspect(h.decl.Body, func(nd ast.Node) bool {
		if id, ok := nd.(*ast.Ident); ok && pk.TypesInfo.Defs[id] != nil {
			declared[id.Name] = true
		}
		return true
	})
	paramNames := map[string]bool{}
	for _, p := range h.decl.Type.Params.List {
		for _, nm := range p.Names {
			paramNames[nm.Name] = true
		}
	}
	substitutable := func(param *ast.Ident, typ string, arg ast.Expr) bool {
		if assigned[param.Name] {
			return false
		}
		text := ""
		if id, ok := arg.(*ast.Ident); ok {
			if id.Name != param.Name && (declared[id.Name] || paramNames[id.Name]) {
				return false
			}
			text = id.Name
			if tv, okT := pk.TypesInfo.Types[arg]; okT && (tv.Value != nil || tv.IsNil()) && typ != "" {
				text = "(" + typ + ")(" + id.Name + ")"
			}
		} else if tv, okT := pk.TypesInfo.Types[arg]; okT && tv.Value != nil && typ != "" {
			text = "(" + typ + ")(" + n.srcOf(cf, arg.Pos(), arg.End()) + ")"
		} else {
			return false
		}
		obj := pk.TypesInfo.Defs[param]
		if obj == nil {
			return false
		}
		ast.Inspect(h.decl.Body, func(nd ast.Node) bool {
			if id, ok := nd.(*ast.Ident); ok && pk.TypesInfo.Uses[id] == obj {
				t := text
				substs = append(substs, &inlineSite{file: file, s: n.off(id.Pos()), e: n.off(id.End()), text: func() (string, bool) { return t, true }})
			}
			return true
		})
		return true
	}
	// A function-typed parameter that the body only calls (and compares with nil), bound to a function literal —
	// written at the call, or held by a local variable of the caller that is set once — or to nil: every call of
	// the parameter is expanded to the literal's body (the shape the code had before the siblings were merged
	// into one helper with a callback), and what follows from "is nil" / "is not nil" is folded.
	facts := map[types.Object]bool{} // parameter → known to be nil
	paramArg := map[string]ast.Expr{}
	{
		k := 0
		for _, p := range h.decl.Type.Params.List {
			if len(p.Names) == 0 {
				k++
				continue
			}
			for _, nm := range p.Names {
				if k < len(call.Args) {
					paramArg[nm.Name] = call.Args[k]
				}
				k++
			}
		}
	}
	reduceFuncParam := func(param *ast.Ident, typ string, arg ast.Expr) bool {
		obj := pk.TypesInfo.Defs[param]
		if obj == nil || assigned[param.Name] {
			return false
		}
		if _, isSig := obj.Type().Underlying().(*types.Signature); !isSig {
			return false
		}
		var lit *ast.FuncLit
		var litVar *ast.Ident
		isNil := false
		selText := ""
		switch a := arg.(type) {
		case *ast.SelectorExpr:
			// a method value / package function x.y.M over plain identifiers: the calls of the parameter become calls of it
			var root *ast.Ident
			for e := ast.Expr(a); ; {
				if se, isSel := e.(*ast.SelectorExpr); isSel {
					e = se.X
					continue
				}
				root, _ = e.(*ast.Ident)
				break
			}
			if root == nil {
				return false
			}
			if sel := pk.TypesInfo.Selections[a]; sel != nil && sel.Kind() != types.MethodVal {
				return false // a field holding a function: it may be reassigned between the calls
			}
			if o := pk.TypesInfo.Uses[root]; o != nil && o.Parent() != nil && o.Parent() != pk.Types.Scope() && o.Parent() != types.Universe {
				if declared[root.Name] {
					return false
				}
				if paramNames[root.Name] {
					if aid, isA := paramArg[root.Name].(*ast.Ident); !isA || aid.Name != root.Name {
						return false
					}
				}
				if h.decl.Recv != nil && len(h.decl.Recv.List[0].Names) == 1 && h.decl.Recv.List[0].Names[0].Name == root.Name {
					if sel, isSel := call.Fun.(*ast.SelectorExpr); !isSel || !sameName(root.Name, sel.X) {
						return false
					}
				}
			}
			// the fields on the way to the method are not written by the helper
			written := false
			ast.Inspect(h.decl.Body, func(nd ast.Node) bool {
				if as, isAs := nd.(*ast.AssignStmt); isAs {
					for _, l := range as.Lhs {
						if _, isSel := l.(*ast.SelectorExpr); isSel {
							written = true
						}
					}
				}
				return true
			})
			if written {
				return false
			}
			selText = n.srcOf(cf, a.Pos(), a.End())
		case *ast.FuncLit:
			lit = a
		case *ast.Ident:
			if tv, ok := pk.TypesInfo.Types[arg]; ok && tv.IsNil() {
				isNil = true
				break
			}
			v, isVar := pk.TypesInfo.Uses[a].(*types.Var)
			if !isVar || v.Parent() == nil || v.Parent() == pk.Types.Scope() || v.IsField() {
				return false
			}
			// the caller's local, given a literal where it is declared and never touched again
			nDef := 0
			bad := false
			ast.Inspect(caller, func(nd ast.Node) bool {
				switch x := nd.(type) {
				case *ast.AssignStmt:
					for i, l := range x.Lhs {
						id, isID := l.(*ast.Ident)
						if !isID {
							continue
						}
						if pk.TypesInfo.Defs[id] == types.Object(v) && x.Tok == token.DEFINE && len(x.Lhs) == len(x.Rhs) {
							if fl, isFL := x.Rhs[i].(*ast.FuncLit); isFL {
								lit, nDef = fl, nDef+1
							} else {
								bad = true
							}
						} else if pk.TypesInfo.Uses[id] == types.Object(v) {
							bad = true
						}
					}
				case *ast.ValueSpec:
					for i, id := range x.Names {
						if pk.TypesInfo.Defs[id] == types.Object(v) {
							if i < len(x.Values) {
								if fl, isFL := x.Values[i].(*ast.FuncLit); isFL {
									lit, nDef = fl, nDef+1
									continue
								}
							}
							bad = true
						}
					}
				case *ast.UnaryExpr:
					if id, isID := x.X.(*ast.Ident); isID && x.Op == token.AND && pk.TypesInfo.Uses[id] == types.Object(v) {
						bad = true
					}
				}
				return true
			})
			if bad || nDef != 1 || lit == nil {
				return false
			}
			litVar = a
		default:
			return false
		}
		// uses of the parameter: calls and nil comparisons only
		var callUses []*ast.CallExpr
		okUses := true
		ast.Inspect(h.decl.Body, func(nd ast.Node) bool {
			id, isID := nd.(*ast.Ident)
			if !isID || pk.TypesInfo.Uses[id] != obj {
				return true
			}
			switch par := parent[id].(type) {
			case *ast.CallExpr:
				if par.Fun == ast.Expr(id) {
					callUses = append(callUses, par)
					return true
				}
			case *ast.BinaryExpr:
				other := par.X
				if other == ast.Expr(id) {
					other = par.Y
				}
				if oid, isO := other.(*ast.Ident); isO && oid.Name == "nil" && (par.Op == token.EQL || par.Op == token.NEQ) {
					return true
				}
			}
			okUses = false
			return true
		})
		if !okUses {
			return false
		}
		if selText != "" {
			facts[obj] = false
			for _, cu := range callUses {
				id := cu.Fun.(*ast.Ident)
				t := selText
				substs = append(substs, &inlineSite{file: file, s: n.off(id.Pos()), e: n.off(id.End()), text: func() (string, bool) { return t, true }})
			}
			return true
		}
		if isNil {
			facts[obj] = true
			for _, cu := range callUses {
				id := cu.Fun.(*ast.Ident)
				substs = append(substs, &inlineSite{file: file, s: n.off(id.Pos()), e: n.off(id.End()), text: func() (string, bool) { return "(" + typ + ")(nil)", true }})
			}
			return true
		}
		// the literal's free variables must mean the same thing where the helper's body is going to sit
		clash := false
		ast.Inspect(lit.Body, func(nd ast.Node) bool {
			id, isID := nd.(*ast.Ident)
			if !isID {
				return true
			}
			o := pk.TypesInfo.Uses[id]
			if o == nil || o.Parent() == nil || o.Parent() == pk.Types.Scope() || o.Parent() == types.Universe {
				return true
			}
			if o.Pos() >= lit.Pos() && o.Pos() < lit.End() {
				return true // the literal's own
			}
			if declared[id.Name] {
				clash = true
			}
			if paramNames[id.Name] {
				if aid, isA := paramArg[id.Name].(*ast.Ident); !isA || aid.Name != id.Name {
					clash = true
				}
			}
			if h.decl.Recv != nil && len(h.decl.Recv.List[0].Names) == 1 && h.decl.Recv.List[0].Names[0].Name == id.Name {
				if sel, isSel := call.Fun.(*ast.SelectorExpr); !isSel || !sameName(id.Name, sel.X) {
					clash = true
				}
			}
			return true
		})
		if clash {
			return false
		}
		hl := &nHelper{decl: &ast.FuncDecl{Name: ast.NewIdent(param.Name), Type: lit.Type, Body: lit.Body}, file: cf, rets: returnsOutsideClosures(lit.Body)}
		if !helperInlinable(hl.decl) {
			return false
		}
		var nested []*inlineSite
		savedSubsts := substs
		for _, cu := range callUses {
			sts := n.site(hl, cu, file, parent)
			if sts == nil {
				// a literal that is one returned expression, called with plain identifiers or constants, can stand
				// where it is called — also where a statement cannot be put (under || and &&)
				if st := n.exprBeta(pk, lit, cu, cf, file); st != nil {
					nested = append(nested, st)
					continue
				}
				substs = savedSubsts
				return false
			}
			nested = append(nested, sts...)
		}
		substs = append(savedSubsts, nested...)
		facts[obj] = false
		if litVar != nil {
			v := pk.TypesInfo.Uses[litVar]
			if n.blanked == nil {
				n.blanked = map[types.Object]bool{}
			}
			if !n.blanked[v] {
				n.blanked[v] = true
				// the variable may end up without a use: keep the program compiling
				var def ast.Node
				ast.Inspect(caller, func(nd ast.Node) bool {
					switch x := nd.(type) {
					case *ast.AssignStmt:
						for _, l := range x.Lhs {
							if id, isID := l.(*ast.Ident); isID && pk.TypesInfo.Defs[id] == v {
								def = x
							}
						}
					case *ast.DeclStmt:
						ast.Inspect(x, func(y ast.Node) bool {
							if id, isID := y.(*ast.Ident); isID && pk.TypesInfo.Defs[id] == v {
								def = x
							}
							return true
						})
					}
					return true
				})
				if def != nil {
					nm := litVar.Name
					end := n.off(def.End())
					n.pending = append(n.pending, &inlineSite{file: cf, s: end, e: end, text: func() (string, bool) { return "\n_ = " + nm, true }})
				}
			}
		}
		return true
	}
	if h.decl.Recv != nil {
		sel, ok := call.Fun.(*ast.SelectorExpr)
		if !ok {
			return nil
		}
		rt, okT := pk.TypesInfo.Types[sel.X]
		recvObj := pk.TypesInfo.Defs[h.decl.Recv.List[0].Names[0]]
		if !okT || recvObj == nil {
			return nil
		}
		switch {
		case types.Identical(rt.Type, recvObj.Type()):
			if rn := h.decl.Recv.List[0].Names[0]; !sameName(rn.Name, sel.X) && !substitutable(rn, "", sel.X) {
				bNames, bArgs, bTypes = append(bNames, rn.Name), append(bArgs, n.srcOf(cf, sel.X.Pos(), sel.X.End())), append(bTypes, "")
			}
		case types.Identical(types.NewPointer(rt.Type), recvObj.Type()) && rt.Addressable():
			// x.f.M() with M on *T and f a T: the call takes the field's address
			bNames, bArgs, bTypes = append(bNames, h.decl.Recv.List[0].Names[0].Name), append(bArgs, "&("+n.srcOf(cf, sel.X.Pos(), sel.X.End())+")"), append(bTypes, "")
		default:
			if pt, isP := rt.Type.Underlying().(*types.Pointer); isP && types.Identical(pt.Elem(), recvObj.Type()) {
				// p.M() with M on T and p a *T: the call copies *p
				bNames, bArgs, bTypes = append(bNames, h.decl.Recv.List[0].Names[0].Name), append(bArgs, "*("+n.srcOf(cf, sel.X.Pos(), sel.X.End())+")"), append(bTypes, "")
			} else {
				return nil
			}
		}
	} else if _, isID := call.Fun.(*ast.Ident); !isID {
		return nil
	}
	nParams := 0
	for _, p := range h.decl.Type.Params.List {
		if len(p.Names) == 0 {
			nParams++
		}
		nParams += len(p.Names)
	}
	spread := "" // h(g()) with g returning the n values: one multi-value binding
	if len(call.Args) == 1 && nParams > 1 {
		if tv, ok := pk.TypesInfo.Types[call.Args[0]]; ok {
			if tup, isT := tv.Type.(*types.Tuple); isT && tup.Len() == nParams {
				spread = n.srcOf(cf, call.Args[0].Pos(), call.Args[0].End())
			}
		}
		if spread == "" {
			return nil
		}
	}
	ai := 0
	for _, p := range h.decl.Type.Params.List {
		if len(p.Names) == 0 {
			ai++
			continue
		}
		for _, nm := range p.Names {
			if spread != "" {
				if nm.Name != "_" {
					bNames = append(bNames, nm.Name)
					bArgs = append(bArgs, fmt.Sprintf("\x00%d", ai)) // filled from the multi-value binding
					bTypes = append(bTypes, "")
				}
				ai++
				continue
			}
			if ai >= len(call.Args) {
				return nil
			}
			if nm.Name != "_" && !sameName(nm.Name, call.Args[ai]) && reduceFuncParam(nm, n.srcOf(file, p.Type.Pos(), p.Type.End()), call.Args[ai]) {
				ai++
				continue
			}
			if nm.Name != "_" && !sameName(nm.Name, call.Args[ai]) && !substitutable(nm, n.srcOf(file, p.Type.Pos(), p.Type.End()), call.Args[ai]) {
				bNames = append(bNames, nm.Name)
				bArgs = append(bArgs, n.srcOf(cf, call.Args[ai].Pos(), call.Args[ai].End()))
				bTypes = append(bTypes, n.srcOf(file, p.Type.Pos(), p.Type.End()))
			}
			ai++
		}
	}
	if spread == "" && ai != len(call.Args) {
		return nil
	}
	if len(facts) > 0 {
		substs = append(substs, n.foldSites(pk, file, h.decl.Body, facts)...)
	}
	var resTypes []string
	if h.decl.Type.Results != nil {
		for _, r := range h.decl.Type.Results.List {
			resTypes = append(resTypes, n.srcOf(file, r.Type.Pos(), r.Type.End()))
		}
	}
	n.seq++
	id := n.seq

	// pre: temporaries for the arguments (outer scope); in: the parameter names (inner scope)
	bindings := func() (pre, in string) {
		var p, i strings.Builder
		if spread != "" {
			var tmps []string
			for k := 0; k < nParams; k++ {
				tmps = append(tmps, fmt.Sprintf("inl%dS%d", id, k))
			}
			fmt.Fprintf(&p, "%s := %s\n", strings.Join(tmps, ", "), spread)
			for _, t := range tmps {
				fmt.Fprintf(&p, "_ = %s\n", t)
			}
			for k := range bNames {
				var pos int
				fmt.Sscanf(bArgs[k], "\x00%d", &pos)
				fmt.Fprintf(&i, "%s := inl%dS%d\n_ = %s\n", bNames[k], id, pos, bNames[k])
			}
			return p.String(), i.String()
		}
		for k := range bNames {
			if bTypes[k] == "" {
				fmt.Fprintf(&p, "inl%dA%d := %s\n", id, k, bArgs[k])
			} else {
				fmt.Fprintf(&p, "var inl%dA%d %s = %s\n", id, k, bTypes[k], bArgs[k])
			}
			fmt.Fprintf(&i, "%s := inl%dA%d\n_ = %s\n", bNames[k], id, k, bNames[k])
		}
		return p.String(), i.String()
	}
	bs, be := n.off(h.decl.Body.Lbrace)+1, n.off(h.decl.Body.Rbrace)
	resNames := make([]string, len(resTypes))
	for k := range resTypes {
		resNames[k] = fmt.Sprintf("inl%dR%d", id, k)
	}
	retAssign := func(ret *ast.ReturnStmt) (string, bool) {
		if len(ret.Results) == 0 {
			return "", true
		}
		if len(ret.Results) == 1 && len(resTypes) > 1 {
			// "return f(x)" with f giving all the results
			if _, isCall := ret.Results[0].(*ast.CallExpr); isCall {
				t, ok := n.render(file, n.off(ret.Results[0].Pos()), n.off(ret.Results[0].End()))
				if !ok {
					return "", false
				}
				return strings.Join(resNames, ", ") + " = " + t + "\n", true
			}
		}
		if len(ret.Results) != len(resTypes) {
			return "", false
		}
		var rhs []string
		for _, r := range ret.Results {
			t, ok := n.render(file, n.off(r.Pos()), n.off(r.End()))
			if !ok {
				return "", false
			}
			rhs = append(rhs, t)
		}
		return strings.Join(resNames, ", ") + " = " + strings.Join(rhs, ", ") + "\n", true
	}
	// value: statements that leave the helper's results in resNames (declared by the user of value)
	value := func() (string, bool) {
		_, in := bindings()
		if trailingOnly {
			end, tailAssign := be, ""
			if len(h.rets) == 1 {
				end = n.off(h.rets[0].Pos())
				ta, ok := retAssign(h.rets[0])
				if !ok {
					return "", false
				}
				tailAssign = ta
			}
			body, ok := n.render(file, bs, end)
			if !ok {
				return "", false
			}
			return "{\n" + in + body + "\n" + tailAssign + "}\n", true
		}
		// several returns: a labelled one-armed switch, "return e" → "results = e; break label"
		label := fmt.Sprintf("inl%dL", id)
		var b strings.Builder
		pos := bs
		for _, ret := range h.rets {
			gap, ok := n.render(file, pos, n.off(ret.Pos()))
			if !ok {
				return "", false
			}
			b.WriteString(gap)
			ra, ok := retAssign(ret)
			if !ok {
				return "", false
			}
			fmt.Fprintf(&b, "{\n%sbreak %s\n}", ra, label)
			pos = n.off(ret.End())
		}
		gap, ok := n.render(file, pos, be)
		if !ok {
			return "", false
		}
		b.WriteString(gap)
		return label + ":\nswitch {\ndefault:\n" + in + b.String() + "\n}\n", true
	}
	decls := func() string {
		var d strings.Builder
		for k, t := range resTypes {
			fmt.Fprintf(&d, "var %s %s\n", resNames[k], t)
		}
		return d.String()
	}
	lhsText := func() string {
		var lhs []string
		for _, l := range assign.Lhs {
			lhs = append(lhs, n.srcOf(cf, l.Pos(), l.End()))
		}
		return strings.Join(lhs, ", ") + " " + assign.Tok.String() + " " + strings.Join(resNames, ", ")
	}

	// A helper with several returns whose value feeds ONE self-contained statement (a return, an expression
	// statement, an if): the statement is repeated at each return with that return's values in place, which is
	// the shape the code had before the values were merged through the helper (k guarded call sites instead of
	// one call site with a φ argument).
	if !trailingOnly && (shape == "expr" || shape == "if-init") {
		_, isRet := host.(*ast.ReturnStmt)
		_, isExpr := host.(*ast.ExprStmt)
		_, isIf := host.(*ast.IfStmt)
		if (isRet && !inClosure) || isExpr || isIf {
			label := fmt.Sprintf("inl%dL", id)
			return []*inlineSite{{file: cf, s: n.off(host.Pos()), e: n.off(host.End()), text: func() (string, bool) {
				pre, in := bindings()
				cont := func(ret *ast.ReturnStmt) (string, bool) {
					var vals []string
					for _, r := range ret.Results {
						t, ok := n.render(file, n.off(r.Pos()), n.off(r.End()))
						if !ok {
							return "", false
						}
						vals = append(vals, t)
					}
					if len(vals) != len(resTypes) {
						return "", false
					}
					if shape == "if-init" {
						ifs := host.(*ast.IfStmt)
						rest, ok := n.render(cf, n.off(ifs.Cond.Pos()), n.off(ifs.End()))
						if !ok {
							return "", false
						}
						var lhs []string
						for _, l := range assign.Lhs {
							lhs = append(lhs, n.srcOf(cf, l.Pos(), l.End()))
						}
						// "v, ok := h(); if ok {…}" with this return's ok a literal: only the branch taken is kept
						ifText := "if " + rest
						condID, neg := ifs.Cond, false
						if u, isU := condID.(*ast.UnaryExpr); isU && u.Op == token.NOT {
							condID, neg = u.X, true
						}
						// … likewise "if err := h(); err != nil {…}" with this return's err the literal nil
						nilCmp := false
						if be, isBE := condID.(*ast.BinaryExpr); isBE && !neg && (be.Op == token.NEQ || be.Op == token.EQL) {
							if y, isY := be.Y.(*ast.Ident); isY && y.Name == "nil" {
								condID, nilCmp, neg = be.X, true, be.Op == token.NEQ
							}
						}
						if cid, isID := condID.(*ast.Ident); isID {
							for k, l := range lhs {
								isLit := vals[k] == "true" || vals[k] == "false"
								knownNonNil := false
								if nilCmp {
									isLit = vals[k] == "nil"
									// "if x != nil { …; return x }" in the helper: this return's value is not nil
									if rid, isRID := ret.Results[k].(*ast.Ident); isRID && !isLit {
										if blk, isBlk := parent[ret].(*ast.BlockStmt); isBlk {
											if gi, isIf := parent[blk].(*ast.IfStmt); isIf && gi.Body == blk {
												if gc, isBE := gi.Cond.(*ast.BinaryExpr); isBE && gc.Op == token.NEQ {
													gx, isGX := gc.X.(*ast.Ident)
													gy, isGY := gc.Y.(*ast.Ident)
													if isGX && isGY && gx.Name == rid.Name && gy.Name == "nil" {
														knownNonNil = true
														for _, st := range blk.List {
															if st == ast.Stmt(ret) {
																break
															}
															ast.Inspect(st, func(nd ast.Node) bool {
																switch y := nd.(type) {
																case *ast.AssignStmt:
																	for _, lh := range y.Lhs {
																		if lid, isL := lh.(*ast.Ident); isL && lid.Name == rid.Name {
																			knownNonNil = false
																		}
																	}
																case *ast.UnaryExpr:
																	if lid, isL := y.X.(*ast.Ident); isL && y.Op == token.AND && lid.Name == rid.Name {
																		knownNonNil = false
																	}
																}
																return true
															})
														}
													}
												}
											}
										}
									}
									if knownNonNil {
										isLit = true
									}
								}
								if l == cid.Name && isLit {
									// bool: taken ⇔ literal xor negation; nil comparison: "x == nil" taken, "x != nil" not
									taken := (vals[k] == "true") != neg
									if nilCmp {
										taken = !neg
										if knownNonNil {
											taken = neg
										}
									}
									switch {
									case taken:
										t, ok := n.render(cf, n.off(ifs.Body.Pos()), n.off(ifs.Body.End()))
										if !ok {
											return "", false
										}
										ifText = t
									case ifs.Else != nil:
										t, ok := n.render(cf, n.off(ifs.Else.Pos()), n.off(ifs.Else.End()))
										if !ok {
											return "", false
										}
										ifText = t
									default:
										ifText = ""
									}
								}
							}
						}
						if assign.Tok == token.DEFINE {
							// typed declarations: an untyped constant result takes the helper's result type
							var d strings.Builder
							for k, l := range lhs {
								if l == "_" {
									fmt.Fprintf(&d, "_ = %s\n", vals[k])
								} else {
									fmt.Fprintf(&d, "var %s %s = %s\n_ = %s\n", l, resTypes[k], vals[k], l)
								}
							}
							return d.String() + ifText, true
						}
						return strings.Join(lhs, ", ") + " " + assign.Tok.String() + " " + strings.Join(vals, ", ") + "\n" + ifText, true
					}
					// "if h() {A} else {B}" (or "if !h()") with this return's value a literal: only the branch taken is kept
					if ifs, isIfHost := host.(*ast.IfStmt); isIfHost && ifs.Init == nil && (vals[0] == "true" || vals[0] == "false") {
						cond, neg := ast.Expr(ifs.Cond), false
						for {
							if pe, isP := cond.(*ast.ParenExpr); isP {
								cond = pe.X
								continue
							}
							if u, isU := cond.(*ast.UnaryExpr); isU && u.Op == token.NOT {
								cond, neg = u.X, !neg
								continue
							}
							break
						}
						if cond == ast.Expr(call) {
							taken := (vals[0] == "true") != neg
							switch {
							case taken:
								return n.render(cf, n.off(ifs.Body.Pos()), n.off(ifs.Body.End()))
							case ifs.Else != nil:
								return n.render(cf, n.off(ifs.Else.Pos()), n.off(ifs.Else.End()))
							default:
								return "", true
							}
						}
					}
					a, ok1 := n.render(cf, n.off(host.Pos()), n.off(call.Pos()))
					b, ok2 := n.render(cf, n.off(call.End()), n.off(host.End()))
					if !ok1 || !ok2 {
						return "", false
					}
					return a + resTypes[0] + "(" + vals[0] + ")" + b, true
				}
				var b strings.Builder
				pos := bs
				for _, ret := range h.rets {
					gap, ok := n.render(file, pos, n.off(ret.Pos()))
					if !ok {
						return "", false
					}
					b.WriteString(gap)
					c, ok := cont(ret)
					if !ok {
						return "", false
					}
					if isRet {
						fmt.Fprintf(&b, "{\n%s\n}", c)
					} else {
						fmt.Fprintf(&b, "{\n%s\nbreak %s\n}", c, label)
					}
					pos = n.off(ret.End())
				}
				gap, ok := n.render(file, pos, be)
				if !ok {
					return "", false
				}
				b.WriteString(gap)
				if isRet {
					return "{\n" + pre + "{\n" + in + b.String() + "\n}\n}", true
				}
				return "{\n" + pre + label + ":\nswitch {\ndefault:\n" + in + b.String() + "\n}\n}", true
			}}}
		}
	}

	switch shape {
	case "tail":
		return []*inlineSite{{file: cf, s: n.off(host.Pos()), e: n.off(host.End()), text: func() (string, bool) {
			pre, in := bindings()
			body, ok := n.render(file, bs, be)
			if !ok {
				return "", false
			}
			return "{\n" + pre + "{\n" + in + body + "\n}\n}", true
		}}}
	case "stmt":
		return []*inlineSite{{file: cf, s: n.off(host.Pos()), e: n.off(host.End()), text: func() (string, bool) {
			pre, _ := bindings()
			v, ok := value()
			if !ok {
				return "", false
			}
			return "{\n" + pre + v + "}", true
		}}}
	case "assign":
		return []*inlineSite{{file: cf, s: n.off(host.Pos()), e: n.off(host.End()), text: func() (string, bool) {
			pre, _ := bindings()
			v, ok := value()
			if !ok {
				return "", false
			}
			return pre + decls() + v + lhsText(), true
		}}}
	case "if-init":
		ifs := host.(*ast.IfStmt)
		return []*inlineSite{{file: cf, s: n.off(host.Pos()), e: n.off(host.End()), text: func() (string, bool) {
			pre, _ := bindings()
			v, ok := value()
			if !ok {
				return "", false
			}
			rest, ok := n.render(cf, n.off(ifs.Cond.Pos()), n.off(ifs.End()))
			if !ok {
				return "", false
			}
			return "{\n" + pre + decls() + v + lhsText() + "\nif " + rest + "\n}", true
		}}}
	case "expr":
		// two sites: the value is computed in front of the statement, the call itself becomes the temporary
		hostS := n.off(host.Pos())
		return []*inlineSite{
			{file: cf, s: hostS, e: hostS, text: func() (string, bool) {
				pre, _ := bindings()
				v, ok := value()
				if !ok {
					return "", false
				}
				return pre + decls() + v, true
			}},
			{file: cf, s: n.off(call.Pos()), e: n.off(call.End()), text: func() (string, bool) { return resNames[0], true }},
		}
	}
	return nil
}

// importsNeeded: the packages the helper's body and signature name that file f does not import under the same
// name (ok is false when f uses one of those names for something else).
func importsNeeded(pk *packages.Package, h *ast.FuncDecl, f *ast.File) (missing map[string]string, ok bool) {
	have := map[string]string{} // local name → path
	for _, im := range f.Imports {
		path := strings.Trim(im.Path.Value, "\"")
		name := path[strings.LastIndex(path, "/")+1:]
		if pkn, isP := pk.TypesInfo.Implicits[im].(*types.PkgName); isP {
			name = pkn.Name()
		}
		if im.Name != nil {
			name = im.Name.Name
		}
		have[name] = path
	}
	missing = map[string]string{}
	ok = true
	check := func(nd ast.Node) bool {
		if id, isID := nd.(*ast.Ident); isID {
			if pn, isPkg := pk.TypesInfo.Uses[id].(*types.PkgName); isPkg {
				switch have[id.Name] {
				case pn.Imported().Path():
				case "":
					missing[id.Name] = pn.Imported().Path()
				default:
					ok = false
				}
			}
		}
		return ok
	}
	ast.Inspect(h.Body, check)
	ast.Inspect(h.Type, check)
	return
}

// site plans the expansion of one call and arranges for the parameter substitutions of that call to be active
// while (and only while) its replacement text is rendered.
func (n *normaliser) site(h *nHelper, call *ast.CallExpr, cf string, parent map[ast.Node]ast.Node) []*inlineSite {
	n.lastSubsts = nil
	outerPending := n.pending
	n.pending = nil
	sites := n.siteRaw(h, call, cf, parent)
	substs := n.lastSubsts
	if sites != nil {
		sites = append(sites, n.pending...)
	}
	n.pending = outerPending
	if len(substs) == 0 {
		return sites
	}
	file := h.file
	for _, st := range sites {
		inner := st.text
		st.text = func() (string, bool) {
			saved := n.extra[file]
			n.extra[file] = append(append([]*inlineSite{}, saved...), substs...)
			defer func() { n.extra[file] = saved }()
			return inner()
		}
	}
	return sites
}

// valueSite: the helper used as a value (passed on as a callback, stored) becomes the function literal it stands
// for. A method value is supported when its receiver expression is the identifier the method itself uses.
func (n *normaliser) valueSite(h *nHelper, use ast.Expr, cf string) *inlineSite {
	file := h.file
	if h.decl.Recv != nil {
		sel, ok := use.(*ast.SelectorExpr)
		if !ok {
			return nil
		}
		id, isID := sel.X.(*ast.Ident)
		if !isID || id.Name != h.decl.Recv.List[0].Names[0].Name {
			return nil
		}
		rt, okT := n.pk.TypesInfo.Types[sel.X]
		recvObj := n.pk.TypesInfo.Defs[h.decl.Recv.List[0].Names[0]]
		if !okT || recvObj == nil || !types.Identical(rt.Type, recvObj.Type()) {
			return nil
		}
	} else if _, isID := use.(*ast.Ident); !isID {
		return nil
	}
	return &inlineSite{file: cf, s: n.off(use.Pos()), e: n.off(use.End()), text: func() (string, bool) {
		sig := n.srcOf(file, h.decl.Type.Params.Pos(), h.decl.Type.Params.End())
		res := ""
		if h.decl.Type.Results != nil {
			res = " " + n.srcOf(file, h.decl.Type.Results.Pos(), h.decl.Type.Results.End())
		}
		body, ok := n.render(file, n.off(h.decl.Body.Lbrace), n.off(h.decl.Body.Rbrace)+1)
		if !ok {
			return "", false
		}
		return "func" + sig + res + " " + body, true
	}}
}

// isMembershipDecl: func(list []T, x T) bool { for _, e := range list { if e == x { return true } }; return false }
// (the hand-written replacement of funk.Contains). The SSA-level twin, isContainsHelper, is what the rules trust;
// this one only decides that the helper is not inlined.
func isMembershipDecl(fd *ast.FuncDecl) bool {
	if fd.Recv != nil || fd.Type.Results == nil || len(fd.Type.Results.List) != 1 || fd.Body == nil || len(fd.Body.List) != 2 {
		return false
	}
	if id, ok := fd.Type.Results.List[0].Type.(*ast.Ident); !ok || id.Name != "bool" {
		return false
	}
	var params []string
	for _, f := range fd.Type.Params.List {
		for _, nm := range f.Names {
			params = append(params, nm.Name)
		}
	}
	if len(params) != 2 {
		return false
	}
	rs, ok := fd.Body.List[0].(*ast.RangeStmt)
	if !ok || rs.Value == nil || len(rs.Body.List) != 1 {
		return false
	}
	if x, isID := rs.X.(*ast.Ident); !isID || x.Name != params[0] {
		return false
	}
	val, isID := rs.Value.(*ast.Ident)
	if !isID {
		return false
	}
	iff, ok := rs.Body.List[0].(*ast.IfStmt)
	if !ok || iff.Init != nil || iff.Else != nil || len(iff.Body.List) != 1 {
		return false
	}
	be, ok := iff.Cond.(*ast.BinaryExpr)
	if !ok || be.Op != token.EQL {
		return false
	}
	l, lok := be.X.(*ast.Ident)
	r, rok := be.Y.(*ast.Ident)
	if !lok || !rok || !((l.Name == val.Name && r.Name == params[1]) || (r.Name == val.Name && l.Name == params[1])) {
		return false
	}
	isRet := func(st ast.Stmt, v string) bool {
		rt, ok := st.(*ast.ReturnStmt)
		if !ok || len(rt.Results) != 1 {
			return false
		}
		id, ok := rt.Results[0].(*ast.Ident)
		return ok && id.Name == v
	}
	return isRet(iff.Body.List[0], "true") && isRet(fd.Body.List[1], "false")
}

// foldExpr renders e with what is known about function-typed parameters (nil / not nil) folded in:
// "p == nil", "!", "||" and "&&" with a decided operand. val is non-nil when the whole expression is decided.
func (n *normaliser) foldExpr(pk *packages.Package, file string, e ast.Expr, facts map[types.Object]bool) (text string, val *bool, changed bool, ok bool) {
	bv := func(b bool) *bool { return &b }
	lit := func(b bool) string {
		if b {
			return "true"
		}
		return "false"
	}
	switch x := e.(type) {
	case *ast.ParenExpr:
		t, v, ch, ok := n.foldExpr(pk, file, x.X, facts)
		if !ok {
			return "", nil, false, false
		}
		if v != nil {
			return lit(*v), v, true, true
		}
		if ch {
			return "(" + t + ")", nil, true, true
		}
	case *ast.UnaryExpr:
		if x.Op == token.NOT {
			t, v, ch, ok := n.foldExpr(pk, file, x.X, facts)
			if !ok {
				return "", nil, false, false
			}
			if v != nil {
				return lit(!*v), bv(!*v), true, true
			}
			if ch {
				return "!(" + t + ")", nil, true, true
			}
		}
	case *ast.BinaryExpr:
		switch x.Op {
		case token.EQL, token.NEQ:
			a, b := x.X, x.Y
			if id, isID := a.(*ast.Ident); isID && id.Name == "nil" {
				a, b = b, a
			}
			if id, isID := a.(*ast.Ident); isID {
				if nid, isN := b.(*ast.Ident); isN && nid.Name == "nil" {
					if isNil, known := facts[pk.TypesInfo.Uses[id]]; known {
						v := isNil == (x.Op == token.EQL)
						return lit(v), bv(v), true, true
					}
				}
			}
		case token.LOR, token.LAND:
			lt, lv, lch, ok1 := n.foldExpr(pk, file, x.X, facts)
			rt, rv, rch, ok2 := n.foldExpr(pk, file, x.Y, facts)
			if !ok1 || !ok2 {
				return "", nil, false, false
			}
			absorbing := x.Op == token.LOR // true absorbs ||, false absorbs &&
			if lv != nil {
				if *lv == absorbing {
					return lit(absorbing), bv(absorbing), true, true
				}
				if rv != nil {
					return lit(*rv), rv, true, true
				}
				return rt, nil, true, true
			}
			if rv != nil && *rv != absorbing {
				return lt, nil, true, true // "l || false", "l && true"
			}
			if lch || rch {
				return "(" + lt + ") " + x.Op.String() + " (" + rt + ")", nil, true, true
			}
		}
	}
	t, ok := n.render(file, n.off(e.Pos()), n.off(e.End()))
	return t, nil, false, ok
}

// foldSites: replacements for the maximal expressions of body that fold, and for if statements whose
// condition is decided (only the branch taken is kept).
func (n *normaliser) foldSites(pk *packages.Package, file string, body *ast.BlockStmt, facts map[types.Object]bool) []*inlineSite {
	var out []*inlineSite
	var walk func(nd ast.Node)
	visitExpr := func(e ast.Expr) bool {
		_, v, ch, ok := n.foldExpr(pk, file, e, facts)
		if !ok || (!ch && v == nil) {
			return false
		}
		ee := e
		out = append(out, &inlineSite{file: file, s: n.off(e.Pos()), e: n.off(e.End()), text: func() (string, bool) {
			t, _, _, ok := n.foldExpr(pk, file, ee, facts)
			return t, ok
		}})
		return true
	}
	walk = func(root ast.Node) {
		ast.Inspect(root, func(nd ast.Node) bool {
			switch x := nd.(type) {
			case *ast.IfStmt:
				if x.Init == nil {
					if _, v, _, ok := n.foldExpr(pk, file, x.Cond, facts); ok && v != nil {
						xs := x
						taken := *v
						out = append(out, &inlineSite{file: file, s: n.off(x.Pos()), e: n.off(x.End()), text: func() (string, bool) {
							switch {
							case taken:
								return n.render(file, n.off(xs.Body.Pos()), n.off(xs.Body.End()))
							case xs.Else != nil:
								return n.render(file, n.off(xs.Else.Pos()), n.off(xs.Else.End()))
							}
							return "", true
						}})
						// what is nested in the branch kept is folded when that branch is rendered
						if taken {
							walk(x.Body)
						} else if x.Else != nil {
							walk(x.Else)
						}
						return false
					}
				}
			case ast.Expr:
				if _, isB := x.(*ast.BinaryExpr); isB {
					if visitExpr(x) {
						return false
					}
				}
				if u, isU := x.(*ast.UnaryExpr); isU && u.Op == token.NOT {
					if visitExpr(x) {
						return false
					}
				}
			}
			return true
		})
	}
	walk(body)
	return out
}

// exprBeta: lit is "func(ps) T { return e }" and call is "f(args)" with every argument an identifier or a
// constant: the call is replaced by (e) with the parameters replaced by the arguments. cf is the literal's
// file, file the call's.
func (n *normaliser) exprBeta(pk *packages.Package, lit *ast.FuncLit, call *ast.CallExpr, cf, file string) *inlineSite {
	if len(lit.Body.List) != 1 {
		return nil
	}
	ret, ok := lit.Body.List[0].(*ast.ReturnStmt)
	if !ok || len(ret.Results) != 1 {
		return nil
	}
	hasLit := false
	ast.Inspect(ret.Results[0], func(nd ast.Node) bool {
		if _, isFL := nd.(*ast.FuncLit); isFL {
			hasLit = true
		}
		return true
	})
	if hasLit {
		return nil
	}
	var params []*ast.Ident
	for _, f := range lit.Type.Params.List {
		if len(f.Names) == 0 {
			return nil
		}
		if _, isEll := f.Type.(*ast.Ellipsis); isEll {
			return nil
		}
		params = append(params, f.Names...)
	}
	if len(params) != len(call.Args) {
		return nil
	}
	var argText []string
	for _, a := range call.Args {
		switch x := a.(type) {
		case *ast.Ident:
			argText = append(argText, x.Name)
		default:
			tv, okT := pk.TypesInfo.Types[a]
			if !okT || tv.Value == nil {
				return nil
			}
			argText = append(argText, "("+n.srcOf(file, a.Pos(), a.End())+")")
		}
	}
	var subs []*inlineSite
	for i, prm := range params {
		obj := pk.TypesInfo.Defs[prm]
		if obj == nil {
			continue
		}
		assignedTo := false
		ast.Inspect(ret.Results[0], func(nd ast.Node) bool {
			if u, isU := nd.(*ast.UnaryExpr); isU && u.Op == token.AND {
				if id, isID := u.X.(*ast.Ident); isID && pk.TypesInfo.Uses[id] == obj {
					assignedTo = true
				}
			}
			if id, isID := nd.(*ast.Ident); isID && pk.TypesInfo.Uses[id] == obj {
				t := argText[i]
				subs = append(subs, &inlineSite{file: cf, s: n.off(id.Pos()), e: n.off(id.End()), text: func() (string, bool) { return t, true }})
			}
			return true
		})
		if assignedTo {
			return nil
		}
	}
	e := ret.Results[0]
	return &inlineSite{file: file, s: n.off(call.Pos()), e: n.off(call.End()), text: func() (string, bool) {
		saved := n.extra[cf]
		n.extra[cf] = append(append([]*inlineSite{}, saved...), subs...)
		defer func() { n.extra[cf] = saved }()
		t, ok := n.render(cf, n.off(e.Pos()), n.off(e.End()))
		return "(" + t + ")", ok
	}}
}

func truncate(s string, n int) string {
	if len(s) > n {
		return s[:n] + "…"
	}
	return s
}
