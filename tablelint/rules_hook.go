package main

import (
	"fmt"
	"go/token"
	"go/types"

	"golang.org/x/tools/go/ssa"
)

// updateHook: the engine function the hand calls back with every new hand state.
type updateHook struct {
	Fn     *ssa.Function // (*tableEngine).updateGameState
	RegOK  bool          // start step registers a closure that forwards its own argument to Fn
	RegPos string
}

func (p *Prog) updateHook() *updateHook {
	lc := p.lifecycle()
	if lc.startFn == nil {
		return nil
	}
	h := &updateHook{}
	for _, ci := range Calls(lc.startFn) {
		if calleeName(ci.Common()) != "Game.OnGameStateUpdated" || len(ci.Common().Args) < 1 {
			continue
		}
		h.RegPos = p.InstrPos(ci)
		for _, cl := range closureOperands(ci.Common().Args[len(ci.Common().Args)-1]) {
			for _, c2 := range Calls(cl) {
				sc := c2.Common().StaticCallee()
				if sc == nil || !p.IsRepoFunc(sc) || len(cl.Params) != 1 {
					continue
				}
				args := c2.Common().Args
				if len(args) >= 1 && symIsParam(p.Sym(args[len(args)-1]), cl.Params[0]) {
					h.Fn, h.RegOK = sc, true
				}
			}
		}
		// registration precedes the hand's Start
		if lc.startCall != nil && !Dominates(ci, lc.startCall) {
			h.RegOK = false
		}
		// … on the hand object created for this hand: te.game ← NewGame(backend, options) just before
		created := false
		for _, ss := range p.Stores([]*ssa.Function{lc.startFn}) {
			if ss.Owner == "tableEngine" && ss.Field == "game" && ss.Val.Strip().Kind == "call" && Dominates(ss.Instr, ci) {
				if sc := ss.Val.Strip().Call.Common().StaticCallee(); sc != nil && p.IsRepoFunc(sc) && sc.Signature.Results().Len() == 1 {
					created = true
				}
			}
		}
		if !created {
			h.RegOK = false
		}
	}
	return h
}

// checkUpdateHook decides the parts of the engine's update hook named in `parts`:
//
//	"register"   the start step registers the hook before starting the hand, forwarding the state
//	"store"      the hook stores the state it is given into the table, first, unconditionally
//	"dispatch"   the event is looked up from that state's current event; unknown → error event and return;
//	             game-closed → the closed driver (settle → continue), its error reported
//	"publish"    every other event ends with the game-updated table event
//	"deadline"   every other event calls the deadline updater with that event and that state
//	"stats"      under status playing the statistics updater is called with that state
//	"lastaction" the last player action is cleared (nil) exactly under the round-closed event
//	"pump"       hand side: a new state is cloned, stored and queued unless the hand is closed; the queue's
//	             consumer hands each state to the dispatcher, which runs the event handler and then the hook
func checkUpdateHook(c *Ctx, rule string, parts ...string) {
	p := c.P
	want := map[string]bool{}
	for _, x := range parts {
		want[x] = true
	}
	h := p.updateHook()
	if h == nil || h.Fn == nil {
		c.Bad(rule, "update-hook", "-", "the engine's hand-state hook was not found (start step registers none)")
		return
	}
	f := h.Fn
	where := p.Pos(f.Pos())
	if want["register"] {
		c.Check(h.RegOK, rule, "update-hook:registered", h.RegPos, "registered before Start, forwarding the state", "the hand-state hook is not registered before the hand starts, or does not forward the state it receives")
	}
	if len(f.Params) != 2 {
		c.Bad(rule, "update-hook:signature", where, "unexpected signature")
		return
	}
	gs := f.Params[1]
	isGS := func(s *Sym) bool { return symIsParam(s, gs) }
	evIs := func(gsd []Guard, name string, val bool) bool { // event == pokerface.GameEvent_<name>
		return cmpHolds(gsd, func(l, r *Sym, op token.Token) bool {
			wantOp := token.EQL
			if !val {
				wantOp = token.NEQ
			}
			z, isZ := r.ConstInt()
			return op == wantOp && isZ && z == gameEventConst(p, "GameEvent_"+name) && l.Strip().Kind == "extract"
		})
	}
	if want["store"] {
		ok, d, n := true, "", 0
		for _, ss := range p.Stores([]*ssa.Function{f}) {
			if ss.Owner == "TableState" && ss.Field == "GameState" {
				n++
				if !isGS(ss.Val) {
					ok, d = false, "the table's hand state is set to "+ss.Val.String()
				}
				if len(p.Guards(ss.Instr)) != 0 {
					ok, d = false, "the hand state is stored only conditionally"
				}
				for _, ci := range Calls(f) {
					if !Dominates(ss.Instr, ci) && !isLogCall(ci) {
						ok, d = false, "the hook acts ("+calleeName(ci.Common())+") before it has stored the new hand state"
					}
				}
			}
		}
		c.Check(ok && n == 1, rule, "update-hook:stores-state", where, "State.GameState ← the state given, first", "hand-state hook: "+d+fmt.Sprintf(" (%d store(s))", n))
	}
	// the event variable: lookup in the event table by the given state's current event
	var evLookupOK bool
	for _, b := range f.Blocks {
		for _, in := range b.Instrs {
			if lk, isLk := in.(*ssa.Lookup); isLk && lk.CommaOk {
				k := p.Sym(lk.Index).Strip()
				if k.IsField("Status", "CurrentEvent") && isGS(k.Args[0].Strip().Args[0]) {
					evLookupOK = true
				}
			}
		}
	}
	if want["dispatch"] {
		c.Check(evLookupOK, rule, "update-hook:event-of-that-state", where, "event looked up from gs.Status.CurrentEvent", "the hook does not dispatch on the current event of the state it was given")
		nClosed := 0
		for _, ci := range Calls(f) {
			sc := ci.Common().StaticCallee()
			if sc == nil || !p.IsRepoFunc(sc) {
				continue
			}
			// the closed driver: calls settle then continue
			lc := p.lifecycle()
			isDriver := false
			for _, c2 := range Calls(sc) {
				if c2.Common().StaticCallee() == lc.settleFn {
					isDriver = true
				}
			}
			if !isDriver {
				continue
			}
			nClosed++
			gds := p.Guards(ci)
			c.Check(evIs(gds, "GameClosed", true), rule, "update-hook:closed→settle", p.InstrPos(ci), "settle/continue driver under the game-closed event", "the settle → continue driver is not run exactly for the game-closed event")
			if call, isCall := ci.(*ssa.Call); isCall {
				rep := false
				for _, c3 := range Calls(f) {
					if calleeName(c3.Common()) == "tableEngine.emitErrorEvent" && nilGuard(p.Guards(c3), false, func(x *Sym) bool { return isErrOf(x, call) }) {
						rep = true
					}
				}
				c.Check(rep, rule, "update-hook:closed-error-reported", p.InstrPos(ci), "driver error → error event", "an error of the settle → continue driver is not reported through the error event")
			}
		}
		c.Check(nClosed == 1, rule, "update-hook:closed-driver-once", where, "one call of the closed driver", fmt.Sprintf("the hook runs the settle → continue driver from %d place(s)", nClosed))
		// unknown event → error event, nothing else
		okUnknown := false
		for _, c3 := range Calls(f) {
			if calleeName(c3.Common()) == "tableEngine.emitErrorEvent" {
				for _, g := range p.Guards(c3) {
					if s := g.Cond.Strip(); s.Kind == "extract" && s.Name == "1" && s.Args[0].Strip().Kind == "lookup" && !g.Val {
						okUnknown = true
					}
				}
			}
		}
		c.Check(okUnknown, rule, "update-hook:unknown-event-reported", where, "unknown event → error event", "a hand state with an unknown event is not reported through the error event")
	}
	notClosed := func(in ssa.Instruction) bool { return evIs(p.Guards(in), "GameClosed", false) }
	known := func(in ssa.Instruction) bool {
		for _, g := range p.Guards(in) {
			if s := g.Cond.Strip(); s.Kind == "extract" && s.Name == "1" && s.Args[0].Strip().Kind == "lookup" && g.Val {
				return true
			}
		}
		return false
	}
	onlyThese := func(in ssa.Instruction, allowed int) bool { return len(p.Guards(in)) <= allowed }
	if want["publish"] {
		n := 0
		for _, ci := range Calls(f) {
			if calleeName(ci.Common()) == "tableEngine.emitTableStateEvent" {
				a := p.Sym(ci.Common().Args[len(ci.Common().Args)-1]).Strip()
				if s, _ := a.ConstString(); s == repoConstString(p, "TableStateEvent_GameUpdated") {
					n++
					c.Check(notClosed(ci) && known(ci) && onlyThese(ci, 2), rule, "update-hook:publishes", p.InstrPos(ci), "game-updated event for every event but game-closed", "the new hand state is not published (game-updated) for every known event other than game-closed")
				}
			}
		}
		c.Check(n == 1, rule, "update-hook:publishes-once", where, "one game-updated emission", fmt.Sprintf("the hook emits game-updated from %d place(s)", n))
	}
	if want["deadline"] {
		n := 0
		for _, ci := range Calls(f) {
			sc := ci.Common().StaticCallee()
			if sc == nil || !p.IsRepoFunc(sc) {
				continue
			}
			writes := false
			for _, ss := range p.Stores([]*ssa.Function{sc}) {
				if ss.Owner == "TableState" && ss.Field == "CurrentActionEndAt" {
					writes = true
				}
			}
			if !writes || sc == p.lifecycle().continueFn {
				continue
			}
			isDriver := false
			for _, c2 := range Calls(sc) {
				if c2.Common().StaticCallee() == p.lifecycle().settleFn {
					isDriver = true
				}
			}
			if isDriver {
				continue
			}
			n++
			args := ci.Common().Args
			okArgs := len(args) == 3 && p.Sym(args[1]).Strip().Kind == "extract" && isGS(p.Sym(args[2]))
			c.Check(okArgs && notClosed(ci) && known(ci) && onlyThese(ci, 2), rule, "update-hook:deadline-updater", p.InstrPos(ci), "deadline updater(event, gs) for every event but game-closed", "the deadline updater is not called with this state and its event for every known event other than game-closed")
		}
		c.Check(n == 1, rule, "update-hook:deadline-updater-once", where, "one call", fmt.Sprintf("the hook calls the deadline updater from %d place(s)", n))
	}
	if want["stats"] {
		n := 0
		for _, ci := range Calls(f) {
			if calleeName(ci.Common()) != "tableEngine.updateCurrentPlayerGameStatistics" {
				continue
			}
			n++
			playing := cmpHolds(p.Guards(ci), func(l, r *Sym, op token.Token) bool {
				s, _ := r.ConstString()
				return op == token.EQL && l.Strip().IsField("TableState", "Status") && s == "table_game_playing"
			})
			args := ci.Common().Args
			c.Check(playing && onlyThese(ci, 1) && isGS(p.Sym(args[len(args)-1])), rule, "update-hook:statistics-updater", p.InstrPos(ci), "statistics updater(gs) whenever the table is playing", "the chance statistics are not refreshed from every hand state received while playing")
		}
		c.Check(n == 1, rule, "update-hook:statistics-updater-once", where, "one call", fmt.Sprintf("the hook refreshes the chance statistics from %d place(s)", n))
	}
	if want["lastaction"] {
		n := 0
		for _, ss := range p.Stores([]*ssa.Function{f}) {
			if ss.Owner == "TableState" && ss.Field == "LastPlayerGameAction" {
				n++
				c.Check(ss.Val.IsNil() && evIs(p.Guards(ss.Instr), "RoundClosed", true), rule, "update-hook:last-action-cleared", p.InstrPos(ss.Instr), "nil under the round-closed event", "the published last player action is overwritten by the hook other than by clearing it when a betting round closes")
			}
		}
		c.Check(n == 1, rule, "update-hook:last-action-cleared-once", where, "one clearing store", fmt.Sprintf("%d store(s)", n))
	}
	if want["pump"] {
		checkStatePump(c, rule)
		checkConsumerStarted(c, rule)
		checkCallbackSetters(c, rule, "game", 5)
		checkCallbackSetters(c, rule, "tableEngine", 5)
	}
}

// checkStatePump: hand side of the hook.
func checkStatePump(c *Ctx, rule string) {
	p := c.P
	var gameT = p.singleImpl("", "Game")
	if gameT == nil {
		c.Bad(rule, "state-pump", "-", "hand wrapper not found")
		return
	}
	upd := p.Method(gameT, "updateGameState")
	disp := p.Method(gameT, "handleGameState")
	if upd == nil || disp == nil {
		c.Bad(rule, "state-pump", "-", "hand-side update / dispatch functions not found")
		return
	}
	// update: g.gs ← clone(param); send clone unless closed
	okStore, okSend := false, false
	for _, ss := range p.Stores([]*ssa.Function{upd}) {
		if ss.Owner == "game" && ss.Field == "gs" {
			v := ss.Val.Strip()
			okStore = v.Kind == "call" && len(v.Args) >= 2 && symIsParam(v.Args[len(v.Args)-1], upd.Params[1]) && len(p.Guards(ss.Instr)) == 0
		}
	}
	for _, b := range upd.Blocks {
		for _, in := range b.Instrs {
			if snd, isS := in.(*ssa.Send); isS {
				gds := p.Guards(snd)
				v := p.Sym(snd.X).Strip()
				okSend = guardedBy(gds, false, func(x *Sym) bool { return x.IsField("game", "isClosed") }) && len(gds) == 1 &&
					v.Kind == "call" && symIsParam(v.Args[len(v.Args)-1], upd.Params[1]) && p.Sym(snd.Chan).Strip().IsField("game", "incomingStates")
			}
		}
	}
	c.Check(okStore, rule, "state-pump:stores-clone", p.Pos(upd.Pos()), "hand state ← clone of the new state, always", "the hand wrapper does not keep a clone of every new state")
	c.Check(okSend, rule, "state-pump:queues-unless-closed", p.Pos(upd.Pos()), "clone queued iff the hand is not closed", "a new state is not queued for dispatch exactly when the hand is still open")
	// consumer: range over the queue → dispatcher(state)
	okCons := false
	for _, f := range p.Funcs {
		if f.Parent() == nil {
			continue
		}
		for _, ci := range Calls(f) {
			if ci.Common().StaticCallee() != disp {
				continue
			}
			a := p.Sym(ci.Common().Args[len(ci.Common().Args)-1]).Strip()
			if a.Contains(func(x *Sym) bool { return x.IsField("game", "incomingStates") }) || a.Kind == "extract" || a.Kind == "unop" || a.Kind == "next" {
				okCons = true
			}
		}
	}
	c.Check(okCons, rule, "state-pump:consumer", p.Pos(disp.Pos()), "queue consumer dispatches each state", "no consumer hands the queued states to the dispatcher")
	// dispatcher: handler (if any) then hook, on every path with a known event; hook gets the same state
	var hookCalls []ssa.Instruction
	for _, b := range disp.Blocks {
		for _, in := range b.Instrs {
			if call, isC := in.(*ssa.Call); isC && call.Call.StaticCallee() == nil && !call.Call.IsInvoke() {
				if fv := p.Sym(call.Call.Value).Strip(); fv.IsField("game", "onGameStateUpdated") {
					hookCalls = append(hookCalls, call)
					c.Check(symIsParam(p.Sym(call.Call.Args[0]), disp.Params[1]), rule, "state-pump:hook-gets-state", p.InstrPos(call), "hook(gs)", "the engine hook is not given the dispatched state")
				}
			}
		}
	}
	okEvery := len(hookCalls) >= 1
	for _, b := range disp.Blocks {
		if r, isR := b.Instrs[len(b.Instrs)-1].(*ssa.Return); isR {
			unknown := false
			for _, g := range p.Guards(r) {
				if s := g.Cond.Strip(); s.Kind == "extract" && s.Name == "1" && s.Args[0].Strip().Kind == "lookup" && !g.Val && len(p.Guards(r)) == 1 {
					unknown = true
				}
			}
			if !unknown && !passesOneOf(r, hookCalls) {
				okEvery = false
			}
		}
	}
	c.Check(okEvery, rule, "state-pump:hook-after-every-known-event", p.Pos(disp.Pos()), "every dispatch of a known event ends in the engine hook", "a dispatched state with a known event can bypass the engine hook")
}

// checkCallbackSetters: every On<X>(fn) method of the type stores fn into the field on<X>
// (so a callback registered under one name is not delivered under another, or dropped).
func checkCallbackSetters(c *Ctx, rule string, typeName string, min int) {
	p := c.P
	n := 0
	for _, f := range p.Funcs {
		if f.Signature.Recv() == nil || f.Parent() != nil || len(f.Params) != 2 || len(fnName(f)) < 3 || fnName(f)[:2] != "On" {
			continue
		}
		nt := namedOf(f.Signature.Recv().Type())
		if nt == nil || canonTypeName(nt.Obj()) != typeName || !p.IsRepoFunc(f) {
			continue
		}
		if _, isFn := f.Params[1].Type().Underlying().(*types.Signature); !isFn {
			continue
		}
		n++
		want := "on" + fnName(f)[2:]
		ok, d, k := true, "", 0
		for _, ss := range p.Stores([]*ssa.Function{f}) {
			if ss.Owner != typeName {
				continue
			}
			k++
			if ss.Field != want {
				ok, d = false, "stores the callback into "+ss.Field
			} else if !symIsParam(ss.Val, f.Params[1]) {
				ok, d = false, "stores "+ss.Val.String()+" instead of the callback given"
			}
		}
		if k == 0 {
			ok, d = false, "does not keep the callback"
		}
		c.Check(ok, rule, "setter:"+typeName+"."+fnName(f), p.Pos(f.Pos()), want+" ← the callback given", typeName+"."+fnName(f)+" "+d)
	}
	c.Min(rule, "callback setters of "+typeName, n, min)
}

// checkConsumerStarted: the hand's Start launches the queue consumer before asking the
// backend for the hand; the dispatcher calls the looked-up handler exactly when one exists.
func checkConsumerStarted(c *Ctx, rule string) {
	p := c.P
	gameT := p.singleImpl("", "Game")
	if gameT == nil {
		return
	}
	start := p.Method(gameT, "Start")
	disp := p.Method(gameT, "handleGameState")
	if start == nil || disp == nil {
		c.Bad(rule, "consumer-started", "-", "Start / dispatcher not found")
		return
	}
	// a callee of Start that spawns a goroutine whose closure calls the dispatcher
	var spawn ssa.CallInstruction
	for _, ci := range Calls(start) {
		sc := ci.Common().StaticCallee()
		if sc == nil || !p.IsRepoFunc(sc) {
			continue
		}
		for _, c2 := range Calls(sc) {
			if _, isGo := c2.(*ssa.Go); !isGo {
				continue
			}
			for _, cl := range closureOperands(c2.Common().Value) {
				for _, c3 := range Calls(cl) {
					if c3.Common().StaticCallee() == disp {
						spawn = ci
					}
				}
			}
		}
	}
	var create ssa.CallInstruction
	for _, ci := range Calls(start) {
		if calleeName(ci.Common()) == "GameBackend.CreateGame" {
			create = ci
		}
	}
	c.Check(spawn != nil && create != nil && Dominates(spawn, create), rule, "consumer-started", p.Pos(start.Pos()), "queue consumer launched before the hand is created", "the hand's Start does not launch the consumer of the state queue before creating the hand: no state would ever be dispatched")
	// dispatcher: handler invoked iff found
	for _, ci := range Calls(disp) {
		cm := ci.Common()
		if cm.IsInvoke() || cm.StaticCallee() != nil {
			continue
		}
		s := p.Sym(cm.Value).Strip()
		if s.Kind == "extract" && s.Args[0].Strip().Kind == "lookup" {
			found := false
			for _, g := range p.Guards(ci) {
				if x := g.Cond.Strip(); x.Kind == "extract" && x.Name == "1" && x.Args[0].Strip().String() == s.Args[0].Strip().String() && g.Val {
					found = true
				}
			}
			lk := s.Args[0].Strip()
			keyOK := lk.Args[1].Strip().Kind == "extract" // the event looked up from the state's symbol
			c.Check(found && keyOK && symIsParam(p.Sym(cm.Args[0]), disp.Params[1]), rule, "dispatch:handler-when-found", p.InstrPos(ci), "handler(gs) exactly when the event has one", "the dispatcher calls the looked-up handler when none was found (or not with the dispatched state)")
		}
	}
	for _, b := range disp.Blocks {
		for _, in := range b.Instrs {
			if lk, isLk := in.(*ssa.Lookup); isLk && lk.CommaOk && typeShort(lk.X.Type()) != "map[pokerface.GameEvent]func(*pokerface.GameState)" {
				k := p.Sym(lk.Index).Strip()
				if k.Kind == "field" {
					c.Check(k.IsField("Status", "CurrentEvent") && symIsParam(k.Args[0].Strip().Args[0], disp.Params[1]), rule, "dispatch:event-of-that-state", p.InstrPos(lk), "event = gs.Status.CurrentEvent", "the dispatcher derives the event from "+k.String())
				}
			}
		}
	}
}

// checkPayRouting (C11.R5 part): a pay is turned into a ready-group signal exactly while the
// hand is collecting antes or blinds (event of the hand's own current state), and goes to the
// backend otherwise.
func checkPayRouting(c *Ctx, rule string) {
	p := c.P
	gameT := p.singleImpl("", "Game")
	if gameT == nil {
		return
	}
	pay := p.Method(gameT, "Pay")
	if pay == nil {
		c.Bad(rule, "pay-routing", "-", "hand-side Pay not found")
		return
	}
	ante, blinds := gameEventConst(p, "GameEvent_AnteRequested"), gameEventConst(p, "GameEvent_BlindsRequested")
	isSignal := func(in ssa.Instruction) bool {
		ci, ok := in.(ssa.CallInstruction)
		return ok && calleeName(ci.Common()) == "syncsaga.ReadyGroup.Ready"
	}
	isBackend := func(in ssa.Instruction) bool {
		ci, ok := in.(ssa.CallInstruction)
		return ok && calleeName(ci.Common()) == "GameBackend.Pay"
	}
	d, n := "", 0
	classify := func(gs []Guard) (collecting, other, known bool) {
		for _, g := range gs {
			if cm := g.AsCmp(); cm != nil {
				if z, isZ := cm.R.ConstInt(); isZ && cm.L.Strip().Kind == "extract" && (z == ante || z == blinds) {
					if cm.Op == token.EQL {
						collecting = true
					}
				}
			}
			if s := g.Cond.Strip(); s.Kind == "extract" && s.Name == "1" && s.Args[0].Strip().Kind == "lookup" {
				k := s.Args[0].Strip().Args[1].Strip()
				if g.Val && k.IsField("Status", "CurrentEvent") && k.Args[0].Strip().Args[0].Strip().IsField("game", "gs") {
					known = true
				}
			}
		}
		// "other": both collecting events excluded
		nA, nB := false, false
		for _, g := range gs {
			if cm := g.AsCmp(); cm != nil && cm.Op == token.NEQ {
				if z, isZ := cm.R.ConstInt(); isZ && z == ante {
					nA = true
				}
				if z, isZ := cm.R.ConstInt(); isZ && z == blinds {
					nB = true
				}
			}
		}
		other = nA && nB
		return
	}
	wk := &Walker{P: p, Fn: pay, IsEvent: func(in ssa.Instruction) bool { return isSignal(in) || isBackend(in) }, OnEvent: func(in ssa.Instruction, st *WState) {
		n++
		col, oth, known := classify(st.PathGuards(p))
		switch {
		case !known:
			d = "a pay is routed without the current event of the hand's own state being a known event"
		case isSignal(in) && !col:
			d = "a pay is turned into a ready-group signal outside the ante / blinds collection"
		case isBackend(in) && !oth:
			d = "a pay goes to the backend while antes or blinds are being collected"
		}
	}}
	wk.Run()
	c.Check(d == "" && n >= 2 && !wk.Aborted, rule, "pay-routing", p.Pos(pay.Pos()), "signal ⇔ ante/blinds collection; backend otherwise", "pay routing: "+d)
}

// checkHandStateSync: the hand's current state (the one every action is validated against and applied to)
// is replaced synchronously, in the goroutine of the caller whose action produced the new state and before
// that call returns — never by the asynchronous queue consumer. Callers serialised by the engine mutex
// therefore always validate against the state left by the previous accepted action.
func checkHandStateSync(c *Ctx, rule string) {
	p := c.P
	gameT := p.singleImpl("", "Game")
	if gameT == nil {
		c.Bad(rule, "hand-state-sync", "-", "hand wrapper not found")
		return
	}
	upd := p.Method(gameT, "updateGameState")
	if upd == nil {
		c.Bad(rule, "hand-state-sync", "-", "hand-side update function not found")
		return
	}
	// sole writer, unconditional
	nW := 0
	for _, f := range p.Funcs {
		if !inModule(p, f) {
			continue
		}
		for _, ss := range p.Stores([]*ssa.Function{f}) {
			if ss.Owner != "game" || ss.Field != "gs" {
				continue
			}
			nW++
			v := ss.Val.Strip()
			ok := f == upd && len(p.Guards(ss.Instr)) == 0 && v.Kind == "call" && len(v.Args) >= 2 && symIsParam(v.Args[len(v.Args)-1], upd.Params[1])
			c.Check(ok, rule, "hand-state-sync:writer:"+fnName(f), p.InstrPos(ss.Instr), "current hand state ← clone of the new state, unconditionally, in the update function",
				"the hand's current state is written by "+fnName(f)+" (or only on some paths): an action arriving before that write is validated against the state before the previous action")
		}
	}
	if nW == 0 {
		c.Bad(rule, "hand-state-sync:writer", p.Pos(upd.Pos()), "the hand's current state is never replaced")
	}
	// every use of the update function is a plain synchronous call
	nCalls, async := 0, ""
	for _, f := range p.Funcs {
		if !inModule(p, f) {
			continue
		}
		for _, b := range f.Blocks {
			for _, in := range b.Instrs {
				// the method taken as a value (a bound-method closure) escapes this rule's view of when it runs
				for _, op := range in.Operands(nil) {
					if mc, isMC := (*op).(*ssa.MakeClosure); isMC {
						if fn, _ := mc.Fn.(*ssa.Function); fn != nil && fn.Synthetic != "" && fn.Name() == upd.Name()+"$bound" {
							async = p.InstrPos(in)
						}
					}
				}
				ci, ok := in.(ssa.CallInstruction)
				if !ok || ci.Common().StaticCallee() != upd {
					continue
				}
				nCalls++
				if _, isCall := in.(*ssa.Call); !isCall {
					async = p.InstrPos(in)
				}
			}
		}
	}
	c.Check(nCalls > 0 && async == "", rule, "hand-state-sync:called-synchronously", p.Pos(upd.Pos()), fmt.Sprintf("%d call sites, all plain calls", nCalls),
		"the update function is started asynchronously / deferred / passed as a value at "+async)
}
