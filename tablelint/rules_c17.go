package main

// C17 — manager tables are isolated and manager calls equal engine calls (level: proof).

import (
	"fmt"
	"go/token"
	"go/types"
	"sort"

	"golang.org/x/tools/go/ssa"
)

func init() {
	register(&PropMeta{
		ID:          "C17",
		Level:       "proof",
		Explanation: "Every method present in both the Manager and TableEngine interfaces is proved to be a pure forwarder: one registry lookup by its own table-id parameter, the table-not-found sentinel on a failed lookup, exactly one call of the same-named engine method on the looked-up engine with the remaining parameters in order, results returned unchanged, no other call or registry access (except Delete(own id) after a successful close/release). The registry is accessed only by Load/Store/Delete keyed by the operation's own id; no production package has mutable package-level state and the engine never writes through its shared options. Discharging all obligations proves the statement modulo the trusted base.",
		Rules: map[string]string{
			"F1": "exactly one GetTableEngine call, with the method's own tableID parameter",
			"F2": "on lookup failure every exit returns the table-not-found sentinel as the error result",
			"F3": "exactly one invoke of the same-named TableEngine method on the looked-up engine with the remaining parameters in order",
			"F4": "results of the engine call are returned unchanged (void engine methods: nil)",
			"F5": "no other call; registry Delete(own id) only in close/release, only after the engine call succeeded, and present there",
			"F7": "CreateTable builds the engine with the caller's options and registers every callback of the caller's callbacks struct through the engine's same-named setter (defaults only when nil is given)",
			"F6": "the registry field is touched only by Load(own id) / Store(created table's id, that engine) / Delete(own id) / whole-map reset; GetTableEngine maps a failed Load to the sentinel",
			"G3": "the address of a package-level variable of a production package is only ever read through (or set during initialisation); it is never returned, stored or passed on — constructors hand out fresh objects",
			"G4": "receiver discipline: no method of these types assigns to a field of a value receiver (the assignment would be lost) or copies a sync.* field through its receiver (the manager holds its registry, a sync.Map, by value: a value receiver would register or look up tables in a private copy)",
			"G1": "no package-level variable of a production package is written outside package initialisation",
			"G2": "the engine never stores through its (possibly shared) options pointer; CreateTable builds a fresh engine and backend per table",
		},
		Assumptions: []string{"sync.Map semantics", "SSA construction faithful to source", "user callbacks are outside the claim"},
		Run:         checkC17,
		Controls:    controlsC17,
	})
}

func ifaceMethodNames(i *types.Interface) []string {
	var out []string
	for k := 0; k < i.NumMethods(); k++ {
		out = append(out, i.Method(k).Name())
	}
	sort.Strings(out)
	return out
}

func checkC17(c *Ctx) {
	p := c.P
	checkReceiverDiscipline(c, "G4", p.implementersIn("", "Manager"), 20)
	checkManagerCallbackWiring(c, "F7")
	mi := p.Iface("", "Manager")
	ei := p.Iface("", "TableEngine")
	if mi == nil || ei == nil {
		c.Bad("F1", "anchors", "-", "Manager / TableEngine interfaces not found")
		return
	}
	impls := p.Implementers(mi)
	if len(impls) != 1 {
		c.Bad("F1", "anchors", "-", fmt.Sprintf("expected one Manager implementation, found %d", len(impls)))
		return
	}
	mt := impls[0]
	engNames := map[string]*types.Func{}
	for k := 0; k < ei.NumMethods(); k++ {
		engNames[ei.Method(k).Name()] = ei.Method(k)
	}
	getTE := p.Method(mt, "GetTableEngine")
	sentinel := "pokertable.ErrManagerTableNotFound"
	var forwarders []string
	for _, n := range ifaceMethodNames(mi) {
		if _, ok := engNames[n]; ok && n != "CreateTable" {
			forwarders = append(forwarders, n)
		}
	}
	c.Min("F1", "manager forwarders (methods in both interfaces)", len(forwarders), 22)

	for _, name := range forwarders {
		f := p.Method(mt, name)
		if f == nil {
			c.Bad("F1", name, "-", "method body not found")
			continue
		}
		c.Count("forwarders", 1)
		where := p.Pos(f.Pos())
		engSig := engNames[name].Type().(*types.Signature)
		var lookups, forwards, others []*ssa.Call
		var deletes []*ssa.Call
		for _, ci := range Calls(f) {
			call, isCall := ci.(*ssa.Call)
			if !isCall {
				others = append(others, nil)
				continue
			}
			cm := call.Common()
			switch {
			case isLogCall(call):
				// a log line changes neither effect nor result of the forwarded operation
			case cm.StaticCallee() == getTE && getTE != nil:
				lookups = append(lookups, call)
			case cm.IsInvoke() && namedOf(cm.Value.Type()) != nil && namedOf(cm.Value.Type()).Obj().Name() == "TableEngine":
				forwards = append(forwards, call)
			case calleeName(cm) == "sync.Map.Delete":
				deletes = append(deletes, call)
			default:
				others = append(others, call)
			}
		}
		// F1
		okF1 := len(lookups) == 1 && len(f.Params) >= 2 && len(lookups[0].Call.Args) == 2 &&
			lookups[0].Call.Args[0] == f.Params[0] && lookups[0].Call.Args[1] == f.Params[1]
		c.Check(okF1, "F1", name, where, "one GetTableEngine(own tableID)", fmt.Sprintf("%d lookup call(s) or lookup not keyed by the method's own table id parameter", len(lookups)))
		if !okF1 {
			continue
		}
		lk := lookups[0]
		var engV, errV ssa.Value
		if refs := lk.Referrers(); refs != nil {
			for _, r := range *refs {
				if ex, ok := r.(*ssa.Extract); ok {
					if ex.Index == 0 {
						engV = ex
					} else {
						errV = ex
					}
				}
			}
		}
		// F3
		okF3 := len(forwards) == 1
		var fw *ssa.Call
		detail := ""
		if okF3 {
			fw = forwards[0]
			cm := fw.Common()
			if cm.Method.Name() != name {
				okF3, detail = false, fmt.Sprintf("forwards to TableEngine.%s instead of TableEngine.%s", cm.Method.Name(), name)
			} else if cm.Value != engV {
				okF3, detail = false, "engine method invoked on a value other than the looked-up engine"
			} else if len(cm.Args) != len(f.Params)-2 {
				okF3, detail = false, "argument count differs from the manager method's remaining parameters"
			} else {
				for i, a := range cm.Args {
					if a != f.Params[i+2] {
						okF3, detail = false, fmt.Sprintf("argument %d is %s, not the manager method's parameter %s", i, p.Sym(a), f.Params[i+2].Name())
					}
				}
			}
		} else {
			detail = fmt.Sprintf("%d engine calls", len(forwards))
		}
		c.Check(okF3, "F3", name, where, "one same-named engine call, parameters in order", detail)
		// F5 others
		okF5 := len(others) == 0
		d5 := ""
		if !okF5 {
			d5 = "extra call(s) besides lookup and forward"
			for _, o := range others {
				if o != nil {
					d5 += ": " + p.Sym(o).String()
				}
			}
		}
		needDelete := name == "CloseTable" || name == "ReleaseTable"
		if okF5 {
			if needDelete {
				if len(deletes) != 1 {
					okF5, d5 = false, fmt.Sprintf("%d registry Delete calls; exactly one required after a successful %s", len(deletes), name)
				} else {
					d := deletes[0]
					a0 := p.Sym(d.Call.Args[0]).Strip()
					if !(a0.IsField("manager", "tableEngines") || a0.IsField(canonTypeName(mt.Obj()), "tableEngines")) || p.Sym(d.Call.Args[1]).Strip().V != f.Params[1] && p.Sym(d.Call.Args[1]).Strip().String() != f.Params[1].Name() {
						okF5, d5 = false, "Delete not applied to the registry with the method's own table id"
					} else if fw != nil {
						// must be on the success edge of the forward call
						fe := callErrValue(fw)
						gs := p.Guards(d)
						if fe == nil || !nilGuard(gs, true, func(s *Sym) bool { return s.V == fe }) {
							okF5, d5 = false, "Delete is not guarded by the engine call's success"
						}
					}
				}
			} else if len(deletes) != 0 {
				okF5, d5 = false, "registry Delete in a method that must not remove the table"
			}
		}
		c.Check(okF5, "F5", name, where, "no other call; registry untouched except required Delete", d5)
		if fw == nil {
			continue
		}
		// F2 / F4 by path enumeration
		okF2, okF4 := true, true
		d2, d4 := "", ""
		nExit := 0
		wk := &Walker{P: p, Fn: f, OnExit: func(in ssa.Instruction, st *WState) {
			ret, ok := in.(*ssa.Return)
			if !ok {
				okF4, d4 = false, "panic exit"
				return
			}
			nExit++
			ei := errResultIndex(f.Signature)
			failed := errV != nil && st.NilFact(errV) == -1
			if failed {
				rv := st.Resolve(ret.Results[ei])
				if p.Sym(rv).Strip().String() != sentinel {
					okF2, d2 = false, fmt.Sprintf("lookup-failure exit at %s returns %s, not the table-not-found sentinel", p.InstrPos(ret), p.Sym(rv))
				}
				return
			}
			// success path: must have passed the forward call (dominance) and return its results
			if !Dominates(fw, ret) {
				okF4, d4 = false, fmt.Sprintf("exit at %s not preceded by the engine call", p.InstrPos(ret))
				return
			}
			nres := engSig.Results().Len()
			if nres == 0 {
				rv := st.Resolve(ret.Results[ei])
				if st.NilFact(rv) != +1 {
					okF4, d4 = false, "void engine method: manager must return nil"
				}
				return
			}
			// which results may legitimately differ: after a failed forward with explicit `return err`
			for i := 0; i < nres; i++ {
				rv := st.Resolve(ret.Results[i])
				var want ssa.Value
				if nres == 1 {
					want = fw
				} else if refs := fw.Referrers(); refs != nil {
					for _, r := range *refs {
						if ex, ok := r.(*ssa.Extract); ok && ex.Index == i {
							want = ex
						}
					}
				}
				if rv == want {
					continue
				}
				// `if err := fw(); err != nil { return err }; ...; return nil` (close/release)
				if i == nres-1 && isErrorType(engSig.Results().At(i).Type()) && want != nil && st.NilFact(want) == +1 && st.NilFact(rv) == +1 {
					continue
				}
				okF4, d4 = false, fmt.Sprintf("result %d at %s is %s, not the engine call's result", i, p.InstrPos(ret), p.Sym(rv))
			}
		}}
		wk.Run()
		if wk.Aborted || nExit == 0 {
			c.Undecided("F2", name, where, "path enumeration aborted")
			continue
		}
		c.Check(okF2, "F2", name, where, "lookup failure → sentinel on every exit", d2)
		c.Check(okF4, "F4", name, where, "engine results returned unchanged", d4)
	}

	// F6: registry accesses
	checkC17Registry(c, mt, getTE, sentinel)
	// G1: package-level state
	checkNoGlobalWrites(c, "G1")
	checkNoGlobalAddressEscape(c, "G3")
	// G2: options / fresh engine
	nOpt := 0
	for _, ss := range p.Stores(p.Funcs) {
		if ss.Addr.PathHas("tableEngine", "options") && !ss.Addr.Strip().IsField("tableEngine", "options") {
			c.Bad("G2", "store-through-options:"+FuncName(ss.Fn), p.InstrPos(ss.Instr), "engine writes through its options pointer, which callers may share between tables")
			nOpt++
		}
	}
	if nOpt == 0 {
		c.Ok("G2", "options-read-only", "-", "no store through tableEngine.options")
	}
	if ct := p.Method(mt, "CreateTable"); ct != nil {
		freshEng, freshBackend := false, false
		var newEng *ssa.Call
		for _, ci := range Calls(ct) {
			if call, ok := ci.(*ssa.Call); ok {
				switch calleeName(call.Common()) {
				case "pokertable.NewTableEngine":
					freshEng = true
					newEng = call
				case "pokertable.NewNativeGameBackend":
					freshBackend = true
				}
			}
		}
		c.Check(freshEng && freshBackend, "G2", "CreateTable:fresh-engine", p.Pos(ct.Pos()), "a new engine and a new backend per table", "CreateTable does not construct a fresh engine/backend")
		// the engine constructor shares nothing: every pointer-typed field of the literal is a fresh allocation or a parameter
		_ = newEng
	}
}

func checkC17Registry(c *Ctx, mt *types.Named, getTE *ssa.Function, sentinel string) {
	p := c.P
	n := 0
	for _, f := range p.Funcs {
		for _, ci := range Calls(f) {
			cm := ci.Common()
			if len(cm.Args) == 0 {
				continue
			}
			a0 := p.Sym(cm.Args[0]).Strip()
			if !a0.IsField(canonTypeName(mt.Obj()), "tableEngines") {
				// the registry address must not be handed to anything else
				for _, a := range cm.Args {
					if p.Sym(a).PathHas(canonTypeName(mt.Obj()), "tableEngines") {
						c.Bad("F6", "registry-escape:"+FuncName(f), p.InstrPos(ci), "registry passed to "+calleeName(cm))
					}
				}
				continue
			}
			n++
			name := calleeName(cm)
			where := p.InstrPos(ci)
			key := FuncName(f) + ":" + name
			switch name {
			case "sync.Map.Load":
				ok := f == getTE && len(f.Params) > 1 && p.Sym(cm.Args[1]).Strip().String() == f.Params[1].Name()
				c.Check(ok, "F6", key, where, "Load(own id) in GetTableEngine", "registry Load outside GetTableEngine or not keyed by the own id")
			case "sync.Map.Delete":
				ok := len(f.Params) > 1 && p.Sym(cm.Args[1]).Strip().String() == f.Params[1].Name() && (fnName(f) == "CloseTable" || fnName(f) == "ReleaseTable")
				c.Check(ok, "F6", key, where, "Delete(own id) in close/release", "registry Delete elsewhere or with a foreign id")
			case "sync.Map.Store":
				// Store(table.ID, engine) where table is the result of engine.CreateTable(setting)
				ks := p.Sym(cm.Args[1]).Strip()
				vs := p.Sym(cm.Args[2]).Strip()
				ok := false
				d := "registry Store not of the form Store(<created table>.ID, <that engine>)"
				if ks.IsField("Table", "ID") {
					src := ks.Args[0].Strip() // extract#0 of TableEngine.CreateTable(engine, setting)
					if src.Kind == "extract" && src.Args[0].IsCall("TableEngine.CreateTable") {
						eng := src.Args[0].Args[0].Strip()
						if eng.String() == vs.String() && eng.IsCall("pokertable.NewTableEngine") {
							// and only on success
							call := src.Args[0].Call.(*ssa.Call)
							fe := callErrValue(call)
							if fe != nil && nilGuard(p.Guards(ci), true, func(s *Sym) bool { return s.V == fe }) {
								ok = true
							} else {
								d = "registry Store not guarded by successful table creation"
							}
						}
					}
				}
				c.Check(ok, "F6", key, where, "Store(created table id, its engine) on success", d)
			default:
				c.Bad("F6", key, where, "unexpected registry operation "+name)
			}
		}
	}
	c.Min("F6", "registry operations", n, 4)
	// whole-field stores (Reset / constructor)
	for _, ss := range p.FieldStores(canonTypeName(mt.Obj()), "tableEngines") {
		ok := fnName(ss.Fn) == "Reset" || ss.Addr.Root().Kind == "new"
		c.Check(ok, "F6", "registry-reset:"+FuncName(ss.Fn), p.InstrPos(ss.Instr), "whole-map reset in Reset/constructor", "registry replaced outside Reset/constructor")
	}
	// GetTableEngine maps failed Load to sentinel
	if getTE != nil {
		ok := true
		d := ""
		n := 0
		wk := &Walker{P: p, Fn: getTE, OnExit: func(in ssa.Instruction, st *WState) {
			ret, isRet := in.(*ssa.Return)
			if !isRet {
				return
			}
			n++
			// identify the `exist` flag of the Load
			var existV ssa.Value
			for _, ci := range Calls(getTE) {
				if call, isC := ci.(*ssa.Call); isC && calleeName(call.Common()) == "sync.Map.Load" {
					if refs := call.Referrers(); refs != nil {
						for _, r := range *refs {
							if ex, isE := r.(*ssa.Extract); isE && ex.Index == 1 {
								existV = ex
							}
						}
					}
				}
			}
			if existV == nil {
				ok, d = false, "Load's presence flag not found"
				return
			}
			found, known := st.boolF[existV]
			rv := st.Resolve(ret.Results[1])
			if known && !found {
				if p.Sym(rv).Strip().String() != sentinel {
					ok, d = false, "missing table does not yield the table-not-found sentinel"
				}
			} else if known && found {
				if st.NilFact(rv) != +1 {
					ok, d = false, "present table yields an error"
				}
			} else {
				ok, d = false, "exit not decided by the Load presence flag"
			}
		}}
		wk.Run()
		c.Check(ok && n > 0 && !wk.Aborted, "F6", "GetTableEngine:not-found-mapping", p.Pos(getTE.Pos()), "absent → sentinel, present → nil error", d)
	}
}

// checkNoGlobalWrites: no store to a package-level variable of a production package
// outside package initialisation.
func checkNoGlobalWrites(c *Ctx, rule string) {
	p := c.P
	bad := 0
	for _, f := range p.Funcs {
		if fnName(f) == "init" || f.Synthetic != "" {
			continue
		}
		for _, b := range f.Blocks {
			for _, in := range b.Instrs {
				ss := p.storeSite(in)
				if ss == nil || storeIsLocal(in) {
					continue
				}
				r := ss.Addr.Root()
				if r.Kind == "global" {
					if g, ok := r.V.(*ssa.Global); ok || true {
						_ = g
						// loads of globals yield the global's sym with V = load; check package
						if isProdGlobal(r) {
							c.Bad(rule, "global-write:"+r.Name+":"+FuncName(f), p.InstrPos(in), "package-level variable "+r.Name+" is written at run time: tables share mutable state")
							bad++
						}
					}
				}
			}
		}
	}
	if bad == 0 {
		c.Ok(rule, "no-global-writes", "-", "no run-time store to package-level variables of the production packages")
	}
}

func isProdGlobal(r *Sym) bool {
	for _, n := range []string{"pokertable.", "actor.", "open_game_manager.", "seat_manager."} {
		if len(r.Name) > len(n) && r.Name[:len(n)] == n {
			return true
		}
	}
	return false
}

// checkNoGlobalAddressEscape (C17.G3): the address of a package-level variable of the
// production packages is used only to read it (and, during package initialisation, to set
// it). Returning it, storing it or handing it to a call would let two tables (or a caller and
// every table) share one mutable object.
func checkNoGlobalAddressEscape(c *Ctx, rule string) {
	p := c.P
	n, bad := 0, 0
	for _, f := range p.Funcs {
		if f.Synthetic != "" {
			continue
		}
		isInit := fnName(f) == "init"
		for _, b := range f.Blocks {
			for _, in := range b.Instrs {
				for _, op := range in.Operands(nil) {
					g, isG := (*op).(*ssa.Global)
					if !isG || g.Pkg == nil || !isProdPath(g.Pkg.Pkg.Path()) {
						continue
					}
					n++
					ok := false
					switch x := in.(type) {
					case *ssa.UnOp:
						ok = x.Op == token.MUL // a read of the variable
					case *ssa.Store:
						ok = x.Addr == ssa.Value(g) && isInit && x.Val != ssa.Value(g)
					case *ssa.FieldAddr, *ssa.IndexAddr:
						// reading a component: every use of the component address is a load
						ok = true
						if refs := in.(ssa.Value).Referrers(); refs != nil {
							for _, r := range *refs {
								if u, isU := r.(*ssa.UnOp); !isU || u.Op != token.MUL {
									ok = false
								}
							}
						}
					}
					if !ok {
						bad++
						c.Bad(rule, "global-address-escapes:"+g.Name()+":"+FuncName(f), p.InstrPos(in), "the address of package-level variable "+g.Name()+" leaves "+FuncName(f)+" (returned, stored or passed on): every holder shares and can modify the same object")
					}
				}
			}
		}
	}
	if bad == 0 {
		c.Ok(rule, "no-global-address-escape", "-", fmt.Sprintf("%d uses of package-level variables of the production packages, all plain reads (or initialisation)", n))
	}
	c.Min(rule, "uses of package-level variables examined", n, 20)
}
