package main

// C03 — seat bookkeeping stays exclusive, consistent and all-or-nothing.

import (
	"fmt"
	"go/token"
	"sort"
	"strings"

	"golang.org/x/tools/go/ssa"
)

func init() {
	register(&PropMeta{
		ID:          "C03",
		Level:       "other",
		Explanation: "Decides the all-or-nothing clause and the pairing clauses structurally: (R1) no seat-manager mutator has a seat-map / occupant-field write on any path to an error exit; (R2) each mutator can return the sentinels the statement names and both assigners reject an already seated id; (R3) no engine membership operation reaches an error exit after a write to the existing table's player list / seat map / hand index list or after a seat-manager assign/remove that succeeded (inter-procedural error-purity summaries; roots reported once, propagating callers listed as inheriting); (R4) the seat stored for a new player is the seat manager's answer for that same id, the ids removed from the seat manager are the ids filtered from the player list; (R5) capacity guards; (R6) who may call the seat-manager assign/remove and who may store the three headers; (R7) the seated-in flag is set together with the seat manager's. NOT decided: equality of the three views after arbitrary histories, seat reuse, index arithmetic of the seat-map patch.",
		Rules: map[string]string{
			"R1": "seat-manager mutators: error exits are mutation-free (map update / ID / IsIn / HasChips)",
			"R2": "sentinel coverage per mutator; sibling assigners both reject an id that is already seated; exact batch validation path by path: AssignSeats rejects exactly a player named twice / a seat named twice / a seat held by somebody else / a player already seated and remembers accepted entries; RandomAssignSeats rejects exactly a seated or repeated id; assignment covers the whole batch, only after the capacity test / a successful draw of len(batch) empty seats",
			"R3": "engine membership operations: no error exit after a bookkeeping write or a successful seat-manager assign/remove; no function returns as its error a call's error value on the path where it is known nil (inverted test)",
			"R4": "paired updates: Seat ← GetSeatID(same id) after assignment; RemoveSeats(ids) with the ids that filtered the player list",
			"R5": "capacity guards dominate buy-in and creation; buy-in only for an id not at the table and top-up only for one that is; each half of a batch update applied with its own list whenever non-empty; the table is created with a seat manager and seat map of its own TableMaxSeatCount (and rule), its own meta, and its initial players added whenever there are some that fit; the seat map rebuilt after a leave has the same size",
			"R6": "who-may-call seat-manager assign/remove; who-may-write PlayerStates/SeatMap/GamePlayerIndexes headers; leave filter keeps a player iff his id is not among the leaving ids, over the whole list; no in-place filtering; new seat map = one unset entry per seat",
			"R8": "seat-manager look-ups path by path: each scan of the seats selects exactly the seat with the given id / the empty / occupied / eligible seats and yields that seat's own key; unknown id → (unset, not-found); RemoveSeats and JoinPlayers reject exactly unknown ids, collect exactly the seats found, and apply their update to every collected seat",
			"R7": "IsIn=true and SeatManager.JoinPlayers([same id]) on the same paths of the same function; the join operation path by path: unknown id → not-found, no seat → invalid action, already in → no-op, otherwise marked in the table AND the seat manager told; the seated-in flag is written only as true by join / false at construction",
		},
		Assumptions: []string{"table creation builds fresh state that the manager discards on error (frozen exception)"},
		Run:         checkC03,
		Controls:    controlsC03,
	})
}

// seat-manager watch (R1): occupancy data
func smWatch(fields ...string) *Watch {
	fs := map[string]bool{}
	for _, f := range fields {
		fs[f] = true
	}
	return &Watch{Name: "sm:" + strings.Join(fields, ","), Direct: func(p *Prog, in ssa.Instruction) bool {
		switch x := in.(type) {
		case *ssa.MapUpdate:
			return p.Sym(x.Map).Strip().IsField("seatManager", "SeatData")
		case *ssa.Store:
			a := p.Sym(x.Addr).Strip()
			if a.Kind == "field" && a.Owner == "SeatPlayer" && fs[a.Name] && !rawLocal(x.Addr) {
				return true
			}
		}
		return false
	}}
}

// table bookkeeping watch (R3): headers of the existing table + seat-manager map updates
func tableBookWatch() *Watch {
	sm := smWatch()
	return &Watch{Name: "tablebook", Direct: func(p *Prog, in ssa.Instruction) bool {
		if sm.Direct(p, in) {
			return true
		}
		st, ok := in.(*ssa.Store)
		if !ok || rawLocal(st.Addr) {
			return false
		}
		a := p.Sym(st.Addr).Strip()
		if a.Root().Kind != "param" {
			return false
		}
		for _, f := range []string{"PlayerStates", "SeatMap", "GamePlayerIndexes"} {
			if a.IsField("TableState", f) {
				return true
			}
			// element store into the existing slice
			if a.Kind == "index" && a.Args[0].Strip().IsField("TableState", f) {
				return true
			}
		}
		return false
	}}
}

// errorsReturned: names of sentinel globals a function may return as its error.
func (p *Prog) errorsReturned(f *ssa.Function, memo map[*ssa.Function]map[string]bool) map[string]bool {
	if r, ok := memo[f]; ok {
		return r
	}
	out := map[string]bool{}
	memo[f] = out
	ei := errResultIndex(f.Signature)
	if ei < 0 || f.Blocks == nil {
		return out
	}
	var addVal func(v ssa.Value, depth int)
	addVal = func(v ssa.Value, depth int) {
		if depth > 6 {
			return
		}
		s := p.Sym(v).Strip()
		switch s.Kind {
		case "global":
			out[strings.TrimPrefix(s.Name[strings.Index(s.Name, ".")+1:], "")] = true
		case "extract":
			addVal(s.Args[0].V, depth+1)
		case "call":
			if s.Call != nil {
				for _, c := range p.CG().SyncCallees(s.Call) {
					for k := range p.errorsReturned(c, memo) {
						out[k] = true
					}
				}
			}
		case "phi":
			for _, a := range s.Args {
				if a.V != nil {
					addVal(a.V, depth+1)
				}
			}
		case "alloc":
			if u, ok := v.(*ssa.UnOp); ok {
				if al, ok := u.X.(*ssa.Alloc); ok {
					for _, st := range p.allocStores(al) {
						addVal(st.Val, depth+1)
					}
				}
			}
		}
	}
	for _, b := range f.Blocks {
		for _, in := range b.Instrs {
			if r, ok := in.(*ssa.Return); ok {
				addVal(retValue(r, ei), 0)
			}
		}
	}
	return out
}

func setStr(m map[string]bool) string {
	var ks []string
	for k := range m {
		ks = append(ks, k)
	}
	sort.Strings(ks)
	return "{" + strings.Join(ks, ", ") + "}"
}

func describeMut(p *Prog, in ssa.Instruction) string {
	if ci, ok := in.(ssa.CallInstruction); ok {
		return calleeName(ci.Common())
	}
	if ss := p.storeSite(in); ss != nil {
		a := ss.Addr.Strip()
		if a.Kind == "field" {
			return a.Owner + "." + a.Name
		}
		if a.Kind == "index" || a.Kind == "lookup" {
			b := a.Args[0].Strip()
			if b.Kind == "field" {
				return b.Owner + "." + b.Name + "[]"
			}
		}
		return a.String()
	}
	return "?"
}

func describeExit(p *Prog, f *ssa.Function, exit ssa.Instruction) string {
	r, ok := exit.(*ssa.Return)
	if !ok {
		return "panic"
	}
	v := retValue(r, errResultIndex(f.Signature))
	s := p.Sym(v).Strip()
	switch s.Kind {
	case "global":
		return s.Name
	case "extract":
		if s.Args[0].Strip().Kind == "call" {
			return "fail(" + s.Args[0].Strip().Name + ")"
		}
	case "call":
		return "fail(" + s.Name + ")"
	}
	return s.String()
}

func checkC03(c *Ctx) {
	p := c.P
	smT := p.singleImpl("/seat_manager", "SeatManager")
	et := p.singleImpl("", "TableEngine")
	if smT == nil || et == nil {
		c.Bad("R1", "anchors", "-", "seat manager / engine implementation not found")
		return
	}
	// ---------------- R1
	w1 := smWatch("ID", "IsIn", "HasChips")
	var mutators []*ssa.Function
	for _, f := range p.Methods(smT) {
		if o := f.Object(); o == nil || !o.Exported() {
			continue
		}
		if p.MayMutate(f, w1) && errResultIndex(f.Signature) >= 0 {
			mutators = append(mutators, f)
		}
	}
	c.Min("R1", "exported seat-manager mutators with an error result", len(mutators), 5)
	for _, f := range mutators {
		imps := p.ErrorImpurities(f, w1)
		if len(imps) == 0 {
			c.Ok("R1", fnName(f), p.Pos(f.Pos()), "validate-before-mutate: no occupancy write on any path to an error exit")
		}
		for _, im := range imps {
			if im.Mut == nil {
				c.Undecided("R1", fnName(f), p.Pos(f.Pos()), "path enumeration aborted")
				continue
			}
			c.Bad("R1", fnName(f)+":"+describeMut(p, im.Mut)+"→"+describeExit(p, f, im.Exit), p.InstrPos(im.Mut),
				fmt.Sprintf("seat manager is modified (%s) and the operation can still fail at %s (%s): an error leaves a partial change", instrText(p, im.Mut), p.InstrPos(im.Exit), describeExit(p, f, im.Exit)),
				"path "+p.TrailString(f, im.Trail))
		}
	}
	// ---------------- R2
	memo := map[*ssa.Function]map[string]bool{}
	want := map[string][]string{
		"AssignSeats":          {"ErrNotEnoughSeats", "ErrDuplicatePlayers", "ErrDuplicateSeats", "ErrSeatAlreadyIsTaken"},
		"RandomAssignSeats":    {"ErrNotEnoughSeats"},
		"RemoveSeats":          {"ErrPlayerNotFound"},
		"JoinPlayers":          {"ErrPlayerNotFound"},
		"UpdatePlayerHasChips": {"ErrPlayerNotFound"},
	}
	for name, ws := range want {
		f := p.Method(smT, name)
		if f == nil {
			c.Bad("R2", name, "-", "mutator not found")
			continue
		}
		got := p.errorsReturned(f, memo)
		for _, w := range ws {
			c.Check(got[w], "R2", name+":"+w, p.Pos(f.Pos()), "can report "+w, fmt.Sprintf("%s can no longer report %s (reports %s): an invalid request would be accepted", name, w, setStr(got)))
		}
	}
	for _, name := range []string{"AssignSeats", "RandomAssignSeats"} {
		f := p.Method(smT, name)
		if f == nil {
			continue
		}
		got := p.errorsReturned(f, memo)
		c.Check(got["ErrDuplicatePlayers"] || got["ErrPlayerIsAlreadyExist"], "R2", name+":rejects-already-seated", p.Pos(f.Pos()), "rejects an id that is already seated",
			name+" has no error exit for a player id that is already seated (its sibling assigner has): the same player can be given two seats")
	}
	// ---------------- R3
	w3 := tableBookWatch()
	var ops []*ssa.Function
	for _, f := range p.Methods(et) {
		if errResultIndex(f.Signature) >= 0 && p.MayMutate(f, w3) {
			ops = append(ops, f)
		}
	}
	// creation: the function that installs a fresh table
	creator := map[*ssa.Function]bool{}
	for _, ss := range p.FieldStores("tableEngine", "table") {
		if rawLocal(ss.ValV) {
			creator[ss.Fn] = true
		}
	}
	// membership operations = ops reachable from the exported membership API, excluding hand lifecycle
	nOps := 0
	for _, f := range ops {
		if !c03IsMembershipOp(p, f, ops) {
			continue
		}
		nOps++
		where := p.Pos(f.Pos())
		if creator[f] {
			c.Except("R3", fnName(f), "table creation builds fresh state; on error the engine is discarded by the manager")
			c.Ok("R3", fnName(f)+":creation-exempt", where, "frozen exception: fresh state")
			continue
		}
		imps := p.ErrorImpurities(f, w3)
		own := 0
		inherit := map[string]bool{}
		for _, im := range imps {
			if im.Mut == nil {
				c.Undecided("R3", fnName(f), where, "path enumeration aborted")
				continue
			}
			if im.Inherited {
				inherit[FuncName(im.Callee)] = true
				continue
			}
			mut, ex := describeMut(p, im.Mut), describeExit(p, f, im.Exit)
			key := fnName(f) + ":" + mut + "→" + ex
			// frozen exception: GetSeatID(id) right after the successful assignment of id cannot fail
			if ex == "fail(SeatManager.GetSeatID)" && (mut == "SeatManager.AssignSeats" || mut == "SeatManager.RandomAssignSeats") && c03GetSeatAfterAssign(p, f) {
				c.Except("R3", key, "GetSeatID(id) is queried for ids of the very batch the seat manager has just accepted; by the assigners' postcondition (R1/R2) it cannot fail")
				continue
			}
			own++
			c.Bad("R3", key, p.InstrPos(im.Mut),
				fmt.Sprintf("bookkeeping is changed (%s at %s) and the operation can still fail at %s (%s): the caller gets an error and a partial change", instrText(p, im.Mut), p.InstrPos(im.Mut), p.InstrPos(im.Exit), ex),
				"path "+p.TrailString(f, im.Trail))
		}
		if own == 0 {
			d := "no bookkeeping write before any error exit"
			if len(inherit) > 0 {
				d = "own paths clean; inherits from " + setStr(inherit)
			}
			c.Ok("R3", fnName(f), where, d)
		}
	}
	c.Min("R3", "engine membership operations", nOps, 5)
	checkC03Pairing(c, et)
}

// membership op: not part of the hand life cycle (open/start/settle/continue), i.e.
// reachable from an exported engine method without passing a Game.Start / clone install.
func c03IsMembershipOp(p *Prog, f *ssa.Function, ops []*ssa.Function) bool {
	// exclude functions that install a cloned table or are reachable only from them
	for _, ci := range Calls(f) {
		n := calleeName(ci.Common())
		if n == "Table.Clone" || n == "Game.Start" {
			return false
		}
		if sc := ci.Common().StaticCallee(); sc != nil && p.IsRepoFunc(sc) {
			for _, ci2 := range Calls(sc) {
				n2 := calleeName(ci2.Common())
				if n2 == "Table.Clone" || n2 == "Game.Start" {
					return false
				}
			}
		}
	}
	// the continue step (status reset) is not a membership op: it stores the standby status
	for _, ss := range p.Stores([]*ssa.Function{f}) {
		if ss.Owner == "TableState" && ss.Field == "Status" {
			if s, _ := ss.Val.ConstString(); s == "table_game_standby" || s == "table_game_settled" {
				return false
			}
		}
	}
	for _, ci := range Calls(f) {
		if sc := ci.Common().StaticCallee(); sc != nil && p.IsRepoFunc(sc) && sc != f {
			for _, ss := range p.Stores([]*ssa.Function{sc}) {
				if ss.Owner == "TableState" && ss.Field == "Status" {
					if s, _ := ss.Val.ConstString(); s == "table_game_standby" || s == "table_game_settled" {
						return false
					}
				}
			}
		}
	}
	return true
}

// c03GetSeatAfterAssign: in f, every GetSeatID call takes `.PlayerID` of an element of
// the same batch parameter from which both assign argument collections are built.
func c03GetSeatAfterAssign(p *Prog, f *ssa.Function) bool {
	if len(f.Params) < 2 {
		return false
	}
	batch := f.Params[1].Name()
	ok := false
	for _, ci := range Calls(f) {
		cs := p.CallSym(ci)
		if cs.Name == "SeatManager.GetSeatID" {
			a := cs.Args[1].Strip()
			if a.IsField("JoinPlayer", "PlayerID") && a.Args[0].Strip().Kind == "index" && a.Args[0].Strip().Args[0].Strip().String() == batch {
				ok = true
			} else {
				return false
			}
		}
	}
	return ok
}

func checkC03Pairing(c *Ctx, et interface{}) {
	p := c.P
	// locate batch functions by role
	var adders, removers []*ssa.Function
	assignSites, removeSites := 0, 0
	for _, f := range p.Funcs {
		isAdd, isRem := false, false
		for _, ci := range Calls(f) {
			switch calleeName(ci.Common()) {
			case "SeatManager.AssignSeats", "SeatManager.RandomAssignSeats":
				isAdd = true
				assignSites++
			case "SeatManager.RemoveSeats":
				isRem = true
				removeSites++
			}
		}
		if isAdd {
			adders = append(adders, f)
		}
		if isRem {
			removers = append(removers, f)
		}
	}
	// R6 who-may-call
	c.Check(len(adders) == 1, "R6", "assign-callers", "-", "seat-manager assignment called from one function", fmt.Sprintf("seat-manager assignment is called from %d functions; only the batch-add function may seat players", len(adders)))
	c.Check(len(removers) == 1, "R6", "remove-callers", "-", "seat-manager removal called from one function", fmt.Sprintf("seat-manager removal is called from %d functions; only the batch-remove function may free seats", len(removers)))
	allowedWriters := map[*ssa.Function]bool{}
	for _, f := range adders {
		allowedWriters[f] = true
	}
	for _, f := range removers {
		allowedWriters[f] = true
	}
	for _, field := range []string{"PlayerStates", "SeatMap"} {
		n := 0
		for _, ss := range p.FieldStores("TableState", field) {
			n++
			fresh := rawLocal(ss.Instr.(*ssa.Store).Addr)
			ok := allowedWriters[ss.Fn] || fresh
			c.Check(ok, "R6", "writer:"+field+":"+FuncName(ss.Fn), p.InstrPos(ss.Instr), "header written by a batch function or in a fresh literal", "TableState."+field+" is replaced outside the batch add/remove functions and table construction")
		}
		c.Min("R6", "stores of TableState."+field, n, 3)
	}
	// element writes into an existing seat map / player list
	for _, ss := range p.Stores(p.Funcs) {
		a := ss.Addr.Strip()
		if a.Kind == "index" && !storeIsLocal(ss.Instr) {
			b := a.Args[0].Strip()
			if b.IsField("TableState", "SeatMap") || b.IsField("TableState", "PlayerStates") {
				c.Bad("R6", "element-write:"+b.Name+":"+FuncName(ss.Fn), p.InstrPos(ss.Instr), "an entry of the published "+b.Name+" is overwritten in place")
			}
		}
	}
	checkInPlaceFilter(c, "R6")
	checkSeatMapCtor(c, "R6")

	// R4 add path
	checkAddPath(c, "R4", adders)

	// R4 leave filter definition: a player stays iff his id is not among the leave ids
	checkLeaveFilter(c)
	checkAssignValidation(c)
	checkSeatLookups(c, "R8")
	checkJoinOperation(c, "R7")
	checkPlayerRecordWritersLocked(c, "R7", "IsIn", "the seated-in flag")
	checkReserveBranches(c, "R5")
	checkCreationWiring(c, "R5")
	checkTableLookups(c, "R5", "FindPlayerIdx")
	checkNoKnownNilErrorReturn(c, "R3", func(f *ssa.Function) bool { return (inPkg(p, f, "") || inSeatManagerPkg(p, f)) && f.Parent() == nil }, 20)
	checkSeatManagerConstruction(c, "R8")
	checkRandomSeatDraw(c, "R2")

	// R4 remove path
	for _, f := range removers {
		for _, ci := range Calls(f) {
			cs := p.CallSym(ci)
			if cs.Name != "SeatManager.RemoveSeats" {
				continue
			}
			ids := cs.Args[1].Strip()
			ok := false
			for _, c2 := range Calls(f) {
				s2 := p.CallSym(c2)
				if s2.Call.Common().StaticCallee() != nil && p.IsRepoFunc(s2.Call.Common().StaticCallee()) && len(s2.Args) >= 3 {
					for _, a := range s2.Args[1:] {
						if a.Strip().String() == ids.String() {
							// that callee's results feed the PlayerStates store
							for _, ss := range p.Stores([]*ssa.Function{f}) {
								if ss.Owner == "TableState" && ss.Field == "PlayerStates" && ss.Val.Contains(func(x *Sym) bool { return x.V == s2.V && s2.V != nil }) {
									ok = true
								}
							}
						}
					}
				}
			}
			c.Check(ok && ids.Kind == "param", "R4", fnName(f)+":same-id-list", p.InstrPos(ci), "RemoveSeats(ids) with the ids that filtered the player list", "the ids freed in the seat manager are not the ids removed from the player list")
		}
	}
	// R5 capacity
	et2 := p.singleImpl("", "TableEngine")
	nCap := 0
	for _, f := range p.Methods(et2) {
		if o := f.Object(); o == nil || !o.Exported() {
			continue
		}
		for _, ci := range Calls(f) {
			sc := ci.Common().StaticCallee()
			if sc == nil || len(adders) == 0 || sc != adders[0] {
				continue
			}
			arg := p.Sym(ci.Common().Args[1]).Strip()
			single := arg.Kind == "slice" && arg.Root().Kind == "new" || arg.Kind == "slice" && rawLocal(arg.V)
			if single {
				nCap++
				gs := p.Guards(ci)
				ok := cmpHolds(gs, func(l, r *Sym, op token.Token) bool {
					return (op == token.NEQ || op == token.LSS) && l.IsCall("len") && l.Strip().Args[0].Strip().IsField("TableState", "PlayerStates") && r.Strip().IsField("TableMeta", "TableMaxSeatCount")
				})
				c.Check(ok, "R5", fnName(f)+":capacity-guard", p.InstrPos(ci), "buy-in guarded by len(PlayerStates) vs TableMaxSeatCount", "a new player can be added without comparing the number of players with the table's seat count")
				// the full branch returns the no-empty-seats sentinel
				memo := map[*ssa.Function]map[string]bool{}
				c.Check(p.errorsReturned(f, memo)["ErrTableNoEmptySeats"], "R5", fnName(f)+":full-table-error", p.Pos(f.Pos()), "full table → ErrTableNoEmptySeats", "a full table is no longer reported as ErrTableNoEmptySeats")
			} else if creatorHasCapacityGuard(p, f, ci) {
				nCap++
				c.Ok("R5", fnName(f)+":creation-capacity-guard", p.InstrPos(ci), "creation batch guarded by len(JoinPlayers) vs TableMaxSeatCount")
			}
		}
	}
	c.Min("R5", "capacity-guarded add sites", nCap, 2)
	checkIsInPairing(c, "R7")
}

func creatorHasCapacityGuard(p *Prog, f *ssa.Function, ci ssa.CallInstruction) bool {
	for _, b := range f.Blocks {
		for _, in := range b.Instrs {
			if iff, ok := in.(*ssa.If); ok {
				s := p.Sym(iff.Cond).Strip()
				if s.Kind == "binop" && (s.Name == ">" || s.Name == "<" || s.Name == ">=" || s.Name == "<=") {
					l, r := s.Args[0].Strip(), s.Args[1].Strip()
					if l.IsCall("len") && l.Args[0].Strip().IsField("TableSetting", "JoinPlayers") && r.IsField("TableMeta", "TableMaxSeatCount") && Dominates(iff, ci) {
						return true
					}
				}
			}
		}
	}
	return false
}

// mustPass: every path from a to a function exit passes through b.
func mustPass(a, b ssa.Instruction) bool {
	if a.Parent() != b.Parent() {
		return false
	}
	if a.Block() == b.Block() {
		return instrIndex(a) < instrIndex(b)
	}
	seen := map[*ssa.BasicBlock]bool{}
	st := append([]*ssa.BasicBlock{}, a.Block().Succs...)
	for len(st) > 0 {
		x := st[len(st)-1]
		st = st[:len(st)-1]
		if seen[x] || x == b.Block() {
			continue
		}
		seen[x] = true
		if len(x.Succs) == 0 {
			if _, isRet := x.Instrs[len(x.Instrs)-1].(*ssa.Return); isRet {
				return false
			}
		}
		st = append(st, x.Succs...)
	}
	return true
}

// checkIsInPairing (C03.R7 / C05.R8): IsIn=true and SeatManager.JoinPlayers([same id])
// on the same paths of the same function.
func checkIsInPairing(c *Ctx, rule string) {
	p := c.P
	// who-may-write: the seated-in flag is only ever set to the constant true (join) or
	// the constant false in a fresh literal
	for _, ss := range p.FieldStores("TablePlayerState", "IsIn") {
		b, isB := ss.Val.ConstBool()
		switch {
		case storeIsLocal(ss.Instr) && isB && !b:
		case !storeIsLocal(ss.Instr) && isB && b:
		default:
			c.Bad(rule, "IsIn-writer:"+FuncName(ss.Fn), p.InstrPos(ss.Instr), "the seated-in flag is written from "+ss.Val.String()+": only the join operation may set it (to true), together with the seat manager's flag")
		}
	}
	// R7
	n7 := 0
	for _, ss := range p.FieldStores("TablePlayerState", "IsIn") {
		if storeIsLocal(ss.Instr) {
			continue
		}
		if b, ok := ss.Val.ConstBool(); !ok || !b {
			continue
		}
		n7++
		f := ss.Fn
		owner := ss.Addr.Strip().Args[0].Strip() // the player element
		var join ssa.CallInstruction
		for _, ci := range Calls(f) {
			if calleeName(ci.Common()) == "SeatManager.JoinPlayers" {
				join = ci
			}
		}
		ok := false
		d := "IsIn is set without telling the seat manager in the same function"
		if join != nil {
			// the slice argument holds the same player's id
			idOK := false
			arg := join.Common().Args[0]
			if sl, isS := arg.(*ssa.Slice); isS {
				if al, isA := sl.X.(*ssa.Alloc); isA {
					if refs := al.Referrers(); refs != nil {
						for _, r := range *refs {
							if ia, isIA := r.(*ssa.IndexAddr); isIA {
								if irefs := ia.Referrers(); irefs != nil {
									for _, r2 := range *irefs {
										if st, isSt := r2.(*ssa.Store); isSt {
											v := p.Sym(st.Val).Strip()
											// either the id parameter used to find the player, or that player's PlayerID
											if v.IsField("TablePlayerState", "PlayerID") && v.Args[0].Strip().String() == owner.String() {
												idOK = true
											}
											if v.Kind == "param" && owner.Kind == "index" && owner.Args[1].Strip().IsCall("Table.FindPlayerIdx") && owner.Args[1].Strip().Args[1].Strip().String() == v.String() {
												idOK = true
											}
										}
									}
								}
							}
						}
					}
				}
			}
			if !idOK {
				d = "the seat manager is told about a different player than the one marked seated-in"
			} else if !mustPass(ss.Instr, join) {
				d = "a path leaves the function after IsIn=true without calling SeatManager.JoinPlayers"
			} else {
				ok = true
			}
		}
		c.Check(ok, rule, FuncName(f)+":IsIn↔JoinPlayers", p.InstrPos(ss.Instr), "seated-in flag paired with the seat manager's", d)
	}
	c.Min(rule, "IsIn=true stores", n7, 1)
}

// checkLeaveFilter (C03.R4): in the leave computation the new player list keeps player X
// exactly under !Contains(leaveIDs, func(id) bool { return X.PlayerID == id }).
func checkLeaveFilter(c *Ctx) {
	p := c.P
	var leave *ssa.Function
	for _, f := range p.Funcs {
		for _, ci := range Calls(f) {
			if calleeName(ci.Common()) == "SeatManager.RemoveSeats" {
				for _, c2 := range Calls(f) {
					if sc := c2.Common().StaticCallee(); sc != nil && p.IsRepoFunc(sc) && sc.Signature.Results().Len() == 3 {
						leave = sc
					}
				}
			}
		}
	}
	if leave == nil {
		c.Bad("R4", "leave-filter", "-", "leave computation not found")
		return
	}
	n := 0
	for _, ci := range Calls(leave) {
		cs := p.CallSym(ci)
		if cs.Kind != "builtin" || cs.Name != "append" || typeShort(ci.Common().Args[0].Type()) != "[]*TablePlayerState" {
			continue
		}
		e := appendedElem(p, ci)
		if e == nil {
			continue
		}
		n++
		ok := false
		d := "a player is kept without testing that his id is not among the leaving ids"
		for _, g := range p.Guards(ci) {
			s := g.Cond.Strip()
			if !s.IsCall("funk.Contains") || g.Val {
				continue
			}
			// first argument: the leave ids parameter; second: a closure comparing the kept player's id
			if len(leave.Params) < 3 || !symIsParam(s.Args[0].Strip(), leave.Params[2]) {
				d = "membership is tested against " + s.Args[0].String() + ", not the leaving ids"
				continue
			}
			cl := closureOperands(s.Call.Common().Args[1])
			if len(cl) != 1 {
				d = "membership test is not an id comparison"
				continue
			}
			cmpOK := false
			for _, b := range cl[0].Blocks {
				for _, in := range b.Instrs {
					if r, isR := in.(*ssa.Return); isR {
						v := p.Sym(r.Results[0]).Strip()
						if v.Kind == "binop" && v.Name == "==" {
							l, rr := v.Args[0].Strip(), v.Args[1].Strip()
							for k := 0; k < 2; k++ {
								if l.IsField("TablePlayerState", "PlayerID") && unfree(l.Args[0]).String() == e.Strip().String() && rr.Kind == "param" {
									cmpOK = true
								}
								l, rr = rr, l
							}
						}
					}
				}
			}
			if cmpOK {
				ok = true
			} else {
				d = "the membership closure does not compare the kept player's own id with the candidate leaving id for equality"
			}
		}
		// the kept element ranges over the whole current list
		es := e.Strip()
		if ok && !(es.Kind == "index" && len(leave.Params) >= 4 && symIsParam(es.Args[0], leave.Params[3]) && fullRange(es.Args[1], func(x *Sym) bool { return symIsParam(x, leave.Params[3]) })) {
			ok, d = false, "the kept players are not taken from the whole current player list"
		}
		if bad := notStartingEmpty(p, ci); ok && bad != "" {
			ok, d = false, "the list of remaining players does not start empty ("+bad+")"
		}
		c.Check(ok, "R4", "leave-filter", p.InstrPos(ci), "kept iff id ∉ leaving ids, over the whole current list", "who leaves: "+d)
	}
	c.Min("R4", "keep-appends in the leave computation", n, 1)
}

// unfree: a captured computed value stands for the captured value itself.
func unfree(s *Sym) *Sym {
	s = s.Strip()
	for s.Kind == "free" && len(s.Args) == 1 {
		s = s.Args[0].Strip()
	}
	return s
}

// checkInPlaceFilter: shared by C03.R6, C01.R6 and C02.R4.
func checkInPlaceFilter(c *Ctx, rule string) {
	p := c.P
	// no append onto a truncated re-slice of a list the function did not allocate itself:
	// that overwrites entries of the published list in place
	nApp := 0
	for _, f := range p.Funcs {
		if !inPkg(p, f, "") {
			continue
		}
		for _, ci := range Calls(f) {
			cm := ci.Common()
			if b, isB := cm.Value.(*ssa.Builtin); !isB || b.Name() != "append" {
				continue
			}
			nApp++
			// follow the destination back through phis to its origins
			var origins []ssa.Value
			seen := map[ssa.Value]bool{}
			var walk func(v ssa.Value)
			walk = func(v ssa.Value) {
				if seen[v] {
					return
				}
				seen[v] = true
				switch x := v.(type) {
				case *ssa.Phi:
					for _, e := range x.Edges {
						walk(e)
					}
				case *ssa.Call:
					if b2, isB2 := x.Call.Value.(*ssa.Builtin); isB2 && b2.Name() == "append" {
						walk(x.Call.Args[0])
						return
					}
					origins = append(origins, v)
				default:
					origins = append(origins, v)
				}
			}
			walk(cm.Args[0])
			for _, o := range origins {
				sl, isSl := o.(*ssa.Slice)
				if !isSl || sl.High == nil || rawLocal(sl.X) {
					continue
				}
				t := typeShort(sl.Type())
				if t == "[]*TablePlayerState" || t == "[]int" {
					c.Bad(rule, "in-place-filter:"+FuncName(f), p.InstrPos(ci), "entries are appended onto a truncated re-slice ("+p.Sym(sl).String()+") of a list this function did not allocate: the published player list / index list is overwritten in place while other code still reads it by the old indexes")
				}
			}
		}
	}
	c.Count("appends_checked_for_in_place_overwrite", nApp)
}

// checkSeatMapCtor: the seat-map constructor (a function making an []int of the given
// length, whose result is stored as a table's seat map) marks every seat unset.
func checkSeatMapCtor(c *Ctx, rule string) {
	p := c.P
	n := 0
	seen := map[*ssa.Function]bool{}
	for _, ss := range p.FieldStores("TableState", "SeatMap") {
		v := ss.Val.Strip()
		var f *ssa.Function
		v.Contains(func(x *Sym) bool {
			if x.Kind == "call" && x.Call != nil {
				if sc := x.Call.Common().StaticCallee(); sc != nil && p.IsRepoFunc(sc) && sc.Signature.Recv() == nil && len(sc.Params) == 1 && sc.Signature.Results().Len() == 1 && typeShort(sc.Signature.Results().At(0).Type()) == "[]int" {
					f = sc
				}
			}
			return false
		})
		if f == nil || seen[f] {
			continue
		}
		seen[f] = true
		n++
		okLen, nFill := false, 0
		d := ""
		for _, b := range f.Blocks {
			for _, in := range b.Instrs {
				switch x := in.(type) {
				case *ssa.MakeSlice:
					okLen = symIsParam(p.Sym(x.Len), f.Params[0])
				case *ssa.Store:
					a := p.Sym(x.Addr).Strip()
					if a.Kind != "index" {
						continue
					}
					nFill++
					iv := a.Args[1].Strip()
					k, isK := p.Sym(x.Val).ConstInt()
					full := iv.Kind == "ind" && iv.Ind.Step == 1 && !iv.Ind.Incl && iv.Ind.Op == token.LSS && iv.Ind.Bound != nil &&
						(symIsParam(iv.Ind.Bound, f.Params[0]) || (iv.Ind.Bound.IsCall("len") && iv.Ind.Bound.Strip().Args[0].Strip().String() == a.Args[0].Strip().String()))
					if full {
						z, isZ := iv.Ind.First.ConstInt()
						full = isZ && z == 0
					}
					if !isK || k != -1 {
						d = "a seat is initialised to " + p.Sym(x.Val).String() + ", not the unset value"
					} else if !full {
						d = "not every seat of a new seat map is marked unset (" + iv.String() + ")"
					}
				}
			}
		}
		if d == "" && (!okLen || nFill == 0) {
			d = "a new seat map is not one unset entry per seat"
		}
		c.Check(d == "", rule, "seat-map-constructor:"+fnName(f), p.Pos(f.Pos()), "one unset entry per seat", "new seat map: "+d)
	}
	c.Min(rule, "seat-map constructors", n, 1)
}

// checkAddPath: the batch-add function records, for every new player, the seat the seat
// manager gave that very player, patches the (copied) seat map at that seat with the position
// the player gets in the extended list, and extends the player list only by appending.
// Shared by C03.R4 and C02.R6.
func checkAddPath(c *Ctx, rule string, adders []*ssa.Function) {
	p := c.P
	for _, f := range adders {
		n := 0
		for _, ss := range p.Stores([]*ssa.Function{f}) {
			if ss.Owner != "TablePlayerState" || ss.Field != "Seat" || ss.Addr.Root().Kind != "new" {
				continue
			}
			n++
			v := ss.Val.Strip()
			var idStore *StoreSite
			for _, s2 := range p.Stores([]*ssa.Function{f}) {
				if s2.Owner == "TablePlayerState" && s2.Field == "PlayerID" && s2.Addr.Root().V == ss.Addr.Root().V {
					idStore = s2
				}
			}
			ok := v.Kind == "extract" && v.Name == "0" && v.Args[0].IsCall("SeatManager.GetSeatID") && idStore != nil &&
				v.Args[0].Strip().Args[1].Strip().String() == idStore.Val.Strip().String()
			c.Check(ok, rule, fnName(f)+":seat-of-new-player", p.InstrPos(ss.Instr), "Seat ← GetSeatID(that player's id)", "the seat recorded for a new player is "+v.String()+", not the seat manager's answer for that same player id")
			if ok {
				gcall := v.Args[0].Strip().Call
				after := true
				for _, ci := range Calls(f) {
					n := calleeName(ci.Common())
					if (n == "SeatManager.AssignSeats" || n == "SeatManager.RandomAssignSeats") && Reaches(gcall, ci) {
						after = false
					}
				}
				c.Check(after, rule, fnName(f)+":seat-read-after-assign", p.InstrPos(gcall), "seat read after assignment", "the seat is read from the seat manager before the player has been assigned")
			}
			// seat-map patch uses the same seat
			patched := false
			for _, s3 := range p.Stores([]*ssa.Function{f}) {
				a := s3.Addr.Strip()
				if a.Kind == "index" && a.Args[1].Strip().String() == v.String() {
					patched = true
				}
			}
			c.Check(patched, rule, fnName(f)+":seat-map-patch", p.InstrPos(ss.Instr), "seat map patched at that seat", "the new seat map is not patched at the seat the seat manager assigned")
			// the value patched in is the index the new player will have in the final list:
			// len(old list) + len(new players so far) - 1
			for _, s3 := range p.Stores([]*ssa.Function{f}) {
				a := s3.Addr.Strip()
				if a.Kind != "index" || a.Args[1].Strip().String() != v.String() {
					continue
				}
				iv := s3.Val.Strip()
				// len(old list) + len(new players) with the offset that makes it the new player's own position:
				// −1 when the new-player list already contains him (counted after the append), 0 when counted before
				okIdx := false
				sum, off := iv, int64(0)
				if iv.Kind == "binop" && iv.Name == "-" {
					if k, isK := iv.Args[1].ConstInt(); isK {
						sum, off = iv.Args[0].Strip(), -k
					}
				}
				if sum.Kind == "binop" && sum.Name == "+" {
					x, y := sum.Args[0].Strip(), sum.Args[1].Strip()
					for k := 0; k < 2; k++ {
						if x.IsCall("len") && x.Args[0].Strip().IsField("TableState", "PlayerStates") && y.IsCall("len") && symType(y.Args[0]) == "[]*TablePlayerState" {
							nl := y.Args[0].Strip()
							after := nl.Kind == "builtin" && nl.Name == "append"
							if (after && off == -1) || (!after && nl.Kind == "phi" && off == 0) {
								okIdx = true
							}
						}
						x, y = y, x
					}
				}
				c.Check(okIdx, rule, fnName(f)+":seat-map-patch-index", p.InstrPos(s3.Instr), "seat ↦ len(old players) + len(new players so far) - 1", "the seat map entry of a new player is "+iv.String()+", not the index that player gets in the extended player list")
			}
		}
		c.Min(rule, "new-player seat stores in "+fnName(f), n, 1)
		// R6b: the player list only grows by append(old, new...)
		for _, ss := range p.Stores([]*ssa.Function{f}) {
			if ss.Owner == "TableState" && ss.Field == "PlayerStates" {
				v := ss.Val.Strip()
				ok := v.Kind == "builtin" && v.Name == "append" && v.Args[0].Strip().IsField("TableState", "PlayerStates")
				c.Check(ok, rule, fnName(f)+":list-grows-by-append", p.InstrPos(ss.Instr), "PlayerStates = append(PlayerStates, new...)", "existing players may be reordered or dropped when adding: "+v.String())
			}
		}
	}
}

// recordWatch: writes to the given headers of the existing table's state (and element stores into them) and,
// if bankroll is set, writes to the bankroll of an existing player record.
func recordWatch(name string, headers []string, bankroll bool) *Watch {
	return &Watch{Name: name, Direct: func(p *Prog, in ssa.Instruction) bool {
		st, ok := in.(*ssa.Store)
		if !ok || rawLocal(st.Addr) {
			return false
		}
		a := p.Sym(st.Addr).Strip()
		if a.Root().Kind != "param" {
			return false
		}
		for _, f := range headers {
			if a.IsField("TableState", f) || a.Kind == "index" && a.Args[0].Strip().IsField("TableState", f) {
				return true
			}
		}
		return bankroll && a.IsField("TablePlayerState", "Bankroll")
	}}
}

// checkErrorPurity: no engine membership operation reaches an error exit after a write selected by the
// watch (the all-or-nothing clause of C03.R3, restricted to the state another property depends on).
func checkErrorPurity(c *Ctx, rule string, w *Watch, what string, min int) {
	p := c.P
	et := p.singleImpl("", "TableEngine")
	if et == nil {
		c.Bad(rule, "error-purity:anchors", "-", "engine not found")
		return
	}
	var ops []*ssa.Function
	for _, f := range p.Methods(et) {
		if errResultIndex(f.Signature) >= 0 && p.MayMutate(f, w) {
			ops = append(ops, f)
		}
	}
	creator := map[*ssa.Function]bool{}
	for _, ss := range p.FieldStores("tableEngine", "table") {
		if rawLocal(ss.ValV) {
			creator[ss.Fn] = true
		}
	}
	n := 0
	for _, f := range ops {
		if !c03IsMembershipOp(p, f, ops) || creator[f] {
			continue
		}
		n++
		own := 0
		for _, im := range p.ErrorImpurities(f, w) {
			if im.Mut == nil {
				c.Undecided(rule, "error-purity:"+fnName(f), p.Pos(f.Pos()), "path enumeration aborted")
				continue
			}
			if im.Inherited {
				continue
			}
			mut, ex := describeMut(p, im.Mut), describeExit(p, f, im.Exit)
			// frozen exception: the has-chips refresh of the very record that was just found in the player list
			// fails only for an id the seat manager does not know; by C03's pairing (R4/R6/R7) every listed
			// player is seated, so this exit is unreachable while C03 holds
			if ex == "fail(SeatManager.UpdatePlayerHasChips)" && refreshOfCreditedRecord(p, f, im.Mut) {
				c.Except(rule, "error-purity:"+fnName(f)+":"+mut+"→"+ex, "UpdatePlayerHasChips(id) is called for the id of the record PlayerStates[FindPlayerIdx(id)] that was just credited; it fails only for an id unknown to the seat manager, which C03's pairing excludes for a listed player")
				continue
			}
			own++
			c.Bad(rule, "error-purity:"+fnName(f)+":"+mut+"→"+ex, p.InstrPos(im.Mut),
				fmt.Sprintf("%s changed (%s at %s) and the operation can still fail at %s (%s): the caller is told the request was refused although part of it took effect", what, instrText(p, im.Mut), p.InstrPos(im.Mut), p.InstrPos(im.Exit), ex),
				"path "+p.TrailString(f, im.Trail))
		}
		if own == 0 {
			c.Ok(rule, "error-purity:"+fnName(f), p.Pos(f.Pos()), "no such write before any error exit")
		}
	}
	c.Min(rule, "membership operations writing "+what, n, min)
}

// refreshOfCreditedRecord: mut is a bankroll store to X = PlayerStates[FindPlayerIdx(…)] (found: index != unset)
// and every UpdatePlayerHasChips call of f names X.PlayerID.
func refreshOfCreditedRecord(p *Prog, f *ssa.Function, mut ssa.Instruction) bool {
	ss := p.storeSite(mut)
	if ss == nil || ss.Owner != "TablePlayerState" || ss.Field != "Bankroll" {
		return false
	}
	rec := ss.Addr.Strip().Args[0].Strip()
	if rec.Kind != "index" || !rec.Args[0].Strip().IsField("TableState", "PlayerStates") || !rec.Args[1].Strip().IsCall("Table.FindPlayerIdx") {
		return false
	}
	found := cmpHolds(p.Guards(mut), func(l, r *Sym, op token.Token) bool {
		return op == token.NEQ && l.Strip().IsCall("Table.FindPlayerIdx") && (r.Strip().Name == "-1" || strings.Contains(r.Strip().String(), "UnsetValue"))
	})
	if !found {
		return false
	}
	n := 0
	for _, ci := range Calls(f) {
		cs := p.CallSym(ci)
		if cs.Name != "SeatManager.UpdatePlayerHasChips" {
			continue
		}
		n++
		id := cs.Args[1].Strip()
		if !(id.IsField("TablePlayerState", "PlayerID") && id.Args[0].Strip().String() == rec.String()) {
			return false
		}
	}
	return n > 0
}
