#!/bin/bash
# usage: ./seedconfirm.sh <worktree> <name> <property>  — confirms a seeded change left in a scratch worktree
# (compiles; demo fails with it and passes without it; existing suite passes with it) and stores it under seeded/<name>/.
set -u
wt="$1"; name="$2"; prop="$3"
export GOFLAGS=-mod=mod GOPROXY=off GOSUMDB=off GOTOOLCHAIN=local
out="/verif/seeded/$name"; mkdir -p "$out"
cd "$wt" || exit 2
git diff -- . ':!*_test.go' > "$out/patch.diff"
[ -s "$out/patch.diff" ] || { echo "empty production diff"; exit 2; }
demos=$(git status --porcelain | awk '$1=="??"{print $2}' | grep '_test.go$')
[ -n "$demos" ] || { echo "no demo test file"; exit 2; }
for d in $demos; do mkdir -p "$out/demo/$(dirname $d)"; cp "$d" "$out/demo/$d"; done
pkgs=$(for d in $demos; do echo "./$(dirname $d)"; done | sort -u | tr '\n' ' ')
build=$(go build ./... 2>&1 && echo ok)
with=$(go test -vet=off -count=1 -timeout 120s -run 'TestSeeded' $pkgs 2>&1 | grep -E '^(ok|FAIL|---|panic)' | head -5 | tr '\n' ';')
git apply -R "$out/patch.diff"
without=$(go test -vet=off -count=1 -timeout 120s -run 'TestSeeded' $pkgs 2>&1 | grep -E '^(ok|FAIL|---|panic)' | head -5 | tr '\n' ';')
git apply "$out/patch.diff"
go test -json -vet=off -count=1 -timeout 15m -skip 'TestSeeded' ./... > /tmp/seedsuite.$$.json 2>&1
suite=$(python3 - /tmp/seedsuite.$$.json <<'PY'
import json,sys
base=json.load(open('/root/.vp/BASELINE.json')); want=set(base['stable_pass']); res={}
for l in open(sys.argv[1]):
    try: e=json.loads(l)
    except: continue
    if e.get('Test') and e.get('Action') in('pass','fail'): res[e['Package']+'::'+e['Test']]=e['Action']
missing=[t for t in want if res.get(t)!='pass']
print("stable_passed=%d/%d missing=%s"%(len(want)-len(missing),len(want),missing))
PY
)
rm -f /tmp/seedsuite.$$.json
# the actor package has a load-sensitive flake (a leaked goroutine of one test panics into the next):
# a stable test missing from the package run is re-run alone, three times, before it counts as failing
case "$suite" in *"missing=[]"*) ;; *)
  retry=""
  for t in $(echo "$suite" | grep -o "::Test[A-Za-z_0-9]*" | sed 's/:://'); do
    okc=0; for i in 1 2 3; do go test -vet=off -count=1 -timeout 5m -run "^$t\$" ./... 2>&1 | grep -q '^FAIL' || okc=$((okc+1)); done
    retry="$retry $t:alone_ok=$okc/3"
  done
  suite="$suite; re-run alone:$retry";;
esac
python3 - "$out" "$name" "$prop" "$build" "$with" "$without" "$suite" "$pkgs" <<'PY'
import json,sys
out,name,prop,build,w,wo,suite,pkgs=sys.argv[1:9]
m={"name":name,"breaks_property":prop,"build_with_change":build,
   "demo_with_change":w,"demo_without_change":wo,"existing_suite_with_change":suite,
   "commands":["go build ./...","go test -vet=off -count=1 -timeout 120s -run TestSeeded "+pkgs+"   (with patch, then after git apply -R)","go test -json -vet=off -count=1 -timeout 15m -skip TestSeeded ./...  (with patch; compared with the 51 stable baseline names)"],
   "needs_to_manifest":"", "origin":"independent sub-agent given only the property text and a scratch worktree"}
json.dump(m,open(out+"/meta.json","w"),indent=1)
print(json.dumps(m,indent=1))
PY
