#!/usr/bin/env python3
"""Regenerates MANIFEST.json from the table below (kept by hand, one entry per claimed property)."""
import json, os
HERE = os.path.dirname(os.path.abspath(__file__))
props = [json.loads(l) for l in open(os.path.join(HERE, 'properties.jsonl'))]

TRUST = ("Trusted base: Go type checker and go/ssa construction (x/tools v0.29.0); pinned dependencies as resolved by go.sum "
         "(pokerface hand rules, syncsaga, timebank, go-funk, sync); no reflect/unsafe/cgo in the repo's own code (asserted each run); "
         "user callbacks registered through exported setters are opaque.")

# id -> (category, technique, text, design_ref, note)
CLAIMS = {
 "C17": ("proof", "forwarder proof obligations over SSA (call resolution, path enumeration with nil-facts, who-may-access registry)",
         "All obligations of the forwarding/isolation argument are generated from the current tree (every method shared by Manager and TableEngine, every registry access, every package-level store) and each is discharged or the check fails; obligations == discharged is a proof of the statement modulo the trusted base.",
         "DESIGN.md §4 C17", TRUST),
}

CLAIMS["C10"] = ("other", "guard dominance + effect analysis on SSA of the 9 engine action methods and 9 hand-side actions; path enumeration of validator exits; lockset",
  "Decides structural necessary conditions of C10 on all paths: validation dominates the hand call, every effect is control-dependent on the hand call's success, method/engine-call/label agreement, hand-side validators first and correctly defined. It does not decide whether pokerface allows a wager action for the current player, nor concurrency.",
  "DESIGN.md §4 C10", TRUST)
CLAIMS["C13"] = ("other", "error-purity summaries (path enumeration with nil-facts) over the hand methods; repo-specific errcheck for GameBackend calls; call-graph wiring of the error callback; clone-in/clone-out check of the native backend",
  "Decides on every CFG path that a backend error exit has not touched the hand, that every backend error is returned or routed to the error callback, that the callback is wired to the table error event, and that the native backend never operates on or returns shared state. Remote backends and retry equivalence are not decided.",
  "DESIGN.md §4 C13", TRUST)

CLAIMS["C03"] = ("other", "inter-procedural error-purity summaries (path enumeration with nil-facts and loop-aware fact invalidation) over seat-manager mutators and engine membership operations; sentinel coverage; provenance pairing; who-may-call/who-may-write",
  "Decides the all-or-nothing clause structurally on every CFG path (no bookkeeping write or successful seat-manager change before any error exit), plus sentinel coverage, paired updates, capacity guards and writer sets. Two genuine partial-update defects that are not small to repair are recorded in known_findings.json; two were repaired by fix: commits. Agreement of the three views after arbitrary histories is not decided.",
  "DESIGN.md §4 C03, §5 F3/F4/F4b/F12", TRUST)

CLAIMS["C16"] = ("other", "inter-procedural must-hold lockset over synchronous same-instance call edges; entry-lock idiom; re-entrancy check over the full resolved synchronous call graph (interfaces, func values with one level of parameter context, dependency callbacks)",
  "Decides the locking discipline the statement relies on for every path and caller, independent of the scheduler: mutex held at every membership write / seat-manager change / hand action, idiomatic critical sections, seat-manager writes under its write lock, no re-entrant acquisition. It does not decide linearizability of histories.",
  "DESIGN.md §4 C16", TRUST)

CLAIMS["C01"] = ("other", "who-may-write + value-shape (provenance) analysis of every bankroll store over SSA access paths; induction-variable recognition for whole-list loops; address-escape check; lost-update rule between writers",
  "Decides that the set of bankroll writers is closed and each has an accepted chip-flow shape, that settlement credits result entry r to the player of r over the whole result list, that no top-up can be lost to an absolute settlement write, and that the start stack is the player's bankroll. One genuine lost-update defect was repaired (fix: commit). Zero-sum of pokerface results and sums over histories are not decided.",
  "DESIGN.md §4 C01, §5 F5", TRUST)

CLAIMS["C12"] = ("other", "field-to-field provenance of blind values into the hand options and the published hand-blind record; alias (freshness) check; single-consistent-read rule decided by snapshot identity or lockset; who-may-write; guard dominance for the break guards",
  "Decides that charged and published blinds are copied field by field from one consistent snapshot of the level taken at hand start, that the published record is not an alias of the mutable level, who may write the level, and that the break guards are in place. One genuine torn-read defect was repaired (fix: commit). Arbitrary unsynchronised update schedules beyond the single-read rule are not decided.",
  "DESIGN.md §4 C12, §5 F9", TRUST)

CLAIMS["C15"] = ("other", "who-may-write + value-shape (provenance) matching of every deadline store; dominance and func-value wiring of the clearing hook",
  "Decides that the published deadline is written only as now+action time, zero, or old+seconds (returned unchanged by the extension), and that the clearing hook is wired to round close and to the between-hands reset. It does not decide the predicate that says when a turn publishes a deadline.",
  "DESIGN.md §4 C15", TRUST)

CLAIMS["C07"] = ("other", "who-may-write with mechanism-tied contexts for every status constant; guard dominance (hand-state nil, closed/released, blind guards); lockset; must-store set of the per-hand reset; ordering by dominance",
  "Decides the structural backbone of the life cycle for every path: each status constant is written only in the context implementing its transition, one +1 counter increment on the clone behind the blind guards, the open step only under 'no hand state' and the engine mutex, a complete per-hand reset, closed/released tests before pause, set-up and open. One genuine open-after-close defect was repaired (fix: commit). Timing of the asynchronous trigger and game-id freshness are not decided.",
  "DESIGN.md §4 C07, §5 F6", TRUST)

CLAIMS["C04"] = ("other", "structural rules over the seat manager's SSA: modulus uniformity, old/new-value provenance of the three seat ids per branch (load/store ordering), error-purity of the rotation, guard dominance of the refusal test, shape recognition of the circular scan helpers (induction range, direction, predicate set), definitional check of eligibility",
  "Decides the clauses of the dead-button rotation that are visible in the shape of the code (which old value feeds which seat, refusal purity and guards, scan shapes, eligibility definition, seat-count-independent arithmetic). One genuine defect (literal modulus 9) was repaired (fix: commit). 'Nobody skipped / never backwards / seats distinct' over all reachable states needs state exploration and is not decided.",
  "DESIGN.md §4 C04, §5 F1", TRUST)

CLAIMS["C05"] = ("other", "provenance of the dealt-in flag (loop range, same-player source, must-pass-through of init/rotate), guard checks on the hand-list appends, refresh pairing for every bankroll writer, phi/guard analysis of the waiting flag in both assigners and in the rotation, definitional check of eligibility",
  "Decides the data flow that makes 'dealt in' equal 'eligible' at open, the has-chips refresh after every chip flow, the waiting-flag assignment on seating and its re-evaluation only for non-eligible seats, and the propagation of the refusal. One genuine defect (add-on without has-chips refresh) was repaired (fix: commit). Bounded waiting and persistence across hands are history properties and are not decided.",
  "DESIGN.md §4 C05, §5 F8", TRUST)

CLAIMS["C20"] = ("other", "path enumeration with nil/bool facts over the observer runner (filter-before-emit), provenance/alias check of the adapter's JSON round-trip copy, call-graph closure of the observer runner",
  "Decides on every path of the observer runner that the user callback is preceded by the AsObserver filter whenever a hand state may exist and system mode is off, that each actor receives and the adapter keeps a fresh JSON copy of the incoming table, and that the observer has no write path to the engine. One genuine leak (filter keyed on table status) was repaired (fix: commit). What AsObserver hides is trusted.",
  "DESIGN.md §4 C20, §5 F7", TRUST)

CLAIMS["C14"] = ("other", "guard-dominance check of every did-flag store against the matching chance flag of the same statistics object (pairing table derived from the struct); path counting of counter bumps; loop-shape check of the 3-bet uniqueness; zero-constructor check; one frozen latent exception with a machine-checked side condition",
  "Decides the did ⇒ chance implications, counter discipline, fold pairing, 3-bet uniqueness shape and the reset, on every path of the action methods and settlement. One construct breaks the did ⇒ chance shape but is dead code on this tree; it is reported as LATENT while the side condition that makes it dead is re-proved on each run. Whether the chance predicates implement poker's definitions is not decided.",
  "DESIGN.md §4 C14, §5 F2", TRUST)

CLAIMS["C02"] = ("other", "provenance of the hand index / player index in every action method, shape check of the hand-list builder's seat scan (induction range = one full circle over the seat map), who-may-write of the hand index list, definitional check of the two translators, append/copy-and-patch shape of joins",
  "Decides that the id → hand index → player index translation is carried unchanged through every action, hand start and settlement, and that the hand list is built only from a full-circle seat-map scan of dealt-in players. One genuine defect (short-deck hand order by join order) was repaired (fix: commit). Numeric correctness of seat order for every fake-dealer layout is not decided.",
  "DESIGN.md §4 C02, §5 F10", TRUST)

CLAIMS["C06"] = ("other", "constant-table check of the label rows over the typed syntax tree (go/constant), rotation-constant agreement, who-may-write of player labels, induction-range/guard shape of the next-BB scan with call-site argument provenance, getter↔field pairing of the published seats",
  "Decides that every label row is well formed, that the rotation constant puts bb first, who may write labels, that labels reach the hand engine, that the next-BB list is a bb+1…bb+N scan of occupied seats with chips computed at settlement from the seat manager's BB seat, and that published seats are not cross-wired. Label order for dead-button / dead-small-blind / sitting-out layouts is numeric over seat states and is not decided.",
  "DESIGN.md §4 C06", TRUST)

CLAIMS["C08"] = ("other", "path enumeration of the continue handler with outcome classification; truth tables of the pause / auto-open / alive predicates by path enumeration; must-return-through of the delay helper; drop analysis of the open-game callback with participants provenance",
  "Decides the decision structure that runs after every hand (pause iff pause predicate, else set up the next hand, no silent path), the definitions of the predicates, that the handler is always scheduled and run, and that the open-game callback does not silently drop except under a count guard whose participants provenance is checked. One genuine wedge (set-up participants are not the alive set the guard counted) is recorded in known_findings.json. Liveness itself is not decided.",
  "DESIGN.md §4 C08, §5 F11", TRUST)

CLAIMS["C09"] = ("other", "typestate of the ready-group protocol over the CFG of Setup (with helper look-through and argument binding), guard dominance in the ready operation, who-may-call of the completion function, wiring of the timeout handler, sibling check of the rebuilt gate",
  "Decides the protocol the gate drives on its ready group: set-up order with nobody pre-readied, rejection of unknown participants before any signal, a single completion function reachable only as the ready group's completion callback, the timeout wiring of both constructors and the sibling wiring of the rebuilt gate. Exactly-once delivery and supersession under schedules live inside syncsaga and are not decided.",
  "DESIGN.md §4 C09", TRUST)

CLAIMS["C11"] = ("other", "role classification of the hand's event handlers and check of the dispatch table; ready-group typestate per request handler; completion↔group-step pairing and who-may-call; guard analysis of the asked sets; dominance checks of auto-next and close-once; timeout wiring",
  "Decides the wiring that makes the hand wait for exactly the players it asked and move on by itself: dispatch table, waiting protocol with nobody pre-readied, completion pairing, asked sets (everyone for ready/ante, matching blind positions for blinds), signal routing, auto-next, close-once and the response timeout. Termination of every hand and order-independence of responses are not decided.",
  "DESIGN.md §4 C11", TRUST)

CLAIMS["C19"] = ("other", "call-graph closure (static, interface with field-based type refinement, closures counted at creation — an over-approximation) of the auto-play entry point; guard dominance for action/priority/pay-amount agreement; timer wiring check",
  "Decides that nothing reachable from the player runner's automatic play can call, bet, raise or move all-in, that each automated action is guarded by the hand allowing it in the stated priority, that payments are exactly the posted ante/blind for the player's position, and that automation runs only when suspended or inside the action-time timer callback. It does not decide that the time bank fires no earlier than its duration.",
  "DESIGN.md §4 C19", TRUST)

CLAIMS["C18"] = ("other", "guard dominance for every action the bot submits (HasAction guards and switch arms), string-provenance check of the chosen action through the chooser functions, path counting (exactly one action or hand-off per path), shape and positivity check of the bet/raise amount clamp, forwarding check Actions → adapter → engine, dominance of the silence guards",
  "Decides that every action a bot submits is guarded by the hand allowing it or selected by the chosen action (which can only be an element of its allowed-action list), that exactly one action is submitted per path, that bet/raise amounts are clamped to stack and minimum with a provably positive random range, that payments are the posted amounts, that actions are forwarded under the bot's own id, and that the bot stays silent when not asked or stale. Legality of the amount under pokerface's raise rules and termination of bot tables are not decided.",
  "DESIGN.md §4 C18", TRUST)

REASONS = {}

# obligations added in round 8 of the seeded changes (DESIGN.md §10): appended to the hand-kept texts above
ROUND8 = {
 "C01": ("; who-may-write of the engine's table pointer", " Also: the table object holding the bankrolls is replaced only by a new table or the open step's clone (R9)."),
 "C02": ("; success-exit guards of the hand's wager validator", " Also: the wager validator's success exits establish index == current player of the hand's own state (R9)."),
 "C03": ("; exit classification of the seat look-ups", " Also: a look-up by id answers only from its scan of the seats; every other exit refuses (R8 seat-scan-only-answer)."),
 "C04": ("; who-may-write of the position memory; dominance of the eligible count by the waiting-flag refresh loop", " Also: dealer/SB/BB seats and the initialised mark are written only by first positioning and rotation (R11); the eligible count that decides refusal / heads-up is taken after the waiting flags were re-evaluated (R4)."),
 "C06": ("", " Also: a newly assigned seat's waiting flag is computed for the seated id after the seat is recorded (R12, shared with C05.R5)."),
 "C08": ("; dominance of the eligible count by the waiting-flag refresh loop", " Also: the rotation every next hand depends on counts eligible players after the waiting refresh (R8)."),
 "C09": ("; call closure of the completion path", " Also: nothing on the completion path operates on the shared ready group (R3)."),
 "C11": ("; classification of refusal exits of the group-answer methods", " Also: an asked player's answer is refused only by the entry validator, the unknown-event test or the backend (R10)."),
 "C13": ("", " R1 counts a store to any field of the hand object."),
 "C15": ("; who-may-write of the table's state pointer", " Also: the state object of a live table is never replaced (R6)."),
 "C18": ("; must-hold lockset of the actor's mutex at the hand-over to the runner; barrier reachability of the freshness comparison", " Also: the actor hands views to its runner with its mutex write-held (R9); every view with a hand state passes the freshness comparison before a move is requested (R6; found and fixed F20)."),
 "C19": ("; must-hold lockset of the actor's mutex at the hand-over to the runner; barrier reachability of the freshness comparison", " Also: the actor hands views to its runner with its mutex write-held (R8); every view with a hand state passes the freshness comparison before the timer is armed (R7)."),
 "C20": ("; definition check of Table's text encoders", " Also: every successful return of Table's text encoders is string(json.Marshal(receiver)) of that call (R2 encoder:definition)."),
}
for _pid, (_t, _x) in ROUND8.items():
    _c = CLAIMS[_pid]
    CLAIMS[_pid] = (_c[0], _c[1] + _t, _c[2] + _x, _c[3], _c[4])

checks = []
for pid in sorted(CLAIMS):
    cat, tech, text, ref, note = CLAIMS[pid]
    checks.append({
        "property_id": pid,
        "quick_cmd": "./run.sh %s quick" % pid,
        "thorough_cmd": "./run.sh %s thorough" % pid,
        "evidence_file": "/verif/evidence/%s.json" % pid,
        "replay_cmd_template": "./bin/tablelint explain {path}",
        "engine": "tablelint",
        "level_claimed": {"category": cat, "text": text, "design_ref": ref},
        "level_note": note,
        "technique": "static analysis: " + tech,
    })
na = [{"property_id": p["id"], "reason": REASONS.get(p["id"], "static check under construction (DESIGN.md §4); not yet claimed")}
      for p in props if p["id"] not in CLAIMS]
m = {
 "version": 1,
 "setup_cmd": "./setup.sh",
 "hooks": {"guard": "verif",
           "enable": "static analysis needs no instrumentation; the analyzer loads /repo with -tags=verif so a tagged file would be covered",
           "baseline_off_cmd": "for m in $(cat /w/out/gomods.txt); do MF=$(cd /repo/$m && . /w/out/goenv.sh && gomodflag); (cd /repo/$m && go test $MF -json -vet=off -count=1 -timeout 25m ./...); done",
           "source_commits": [], "add_only": True},
 "engines": [{"name": "tablelint", "path": "tablelint", "serves_properties": sorted(CLAIMS),
              "kind_free_text": "repository-specific static analyzer over go/packages + go/ssa (x/tools v0.29.0): access paths, guard dominance, path enumeration with nil-facts, error-purity summaries, lockset, call resolution; thorough tier adds a second load configuration and AST mutation controls via overlay"}],
 "checks": checks,
 "notes": "Technique family: static analysis only. See DESIGN.md. known_findings.json lists genuine defects recorded rather than repaired.",
 "not_applicable": na,
}
json.dump(m, open(os.path.join(HERE, 'MANIFEST.json'), 'w'), indent=1)
print("claimed:", sorted(CLAIMS), "not_applicable:", [x["property_id"] for x in na])
