#!/bin/sh
# usage: ./run.sh <property id> <quick|thorough>
# Re-loads and re-type-checks /repo's current working tree on every run.
cd "$(dirname "$0")"
export GOFLAGS=-mod=mod GOPROXY=off GOSUMDB=off GOTOOLCHAIN=local
unset GOWORK
[ -x bin/tablelint ] || ./setup.sh >/dev/null 2>&1 || { echo "tablelint build failed" >&2; exit 2; }
exec ./bin/tablelint check -p "$1" -tier "${2:-quick}" -repo "${VERIF_REPO:-/repo}" -verif "$(pwd)"
