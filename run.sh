#!/bin/sh
# usage: ./run.sh <property id> <quick|thorough>
# Re-loads and re-type-checks /repo's current working tree on every run.
cd "$(dirname "$0")"
export GOFLAGS=-mod=mod GOPROXY=off GOSUMDB=off GOTOOLCHAIN=local
unset GOWORK
[ -x bin/tablelint ] || ./setup.sh >/dev/null 2>&1 || { echo "tablelint build failed" >&2; exit 2; }
mkdir -p replays
log="replays/$1.${2:-quick}.log"
./bin/tablelint check -p "$1" -tier "${2:-quick}" -repo "${VERIF_REPO:-/repo}" -verif "$(pwd)" > "$log" 2>&1
code=$?
if [ "$code" -eq 0 ] || [ "$code" -eq 1 ]; then
  cat "$log"
  exit "$code"
fi
# anything else: the tree could not be loaded (exit 2, no verdict) — or the analysis itself died (stack
# overflow, out of memory). An analysis that did not complete decided nothing: by the policy "undecided fails"
# this is reported as a violation, with the log as the replay.
if grep -q "cannot analyse" "$log"; then
  tail -n 20 "$log"
  exit 2
fi
head -n 40 "$log"
echo "UNDECIDED $1.INTERNAL analysis-crash: the analyser terminated abnormally (exit $code); nothing was decided"
echo "VIOLATION property=$1 replay=$(pwd)/$log"
exit 1
