package triage

import (
	"testing"
	"time"

	"github.com/weedbox/pokerface"
	"github.com/weedbox/pokertable"
)

type bumpBackend struct {
	*pokertable.NativeGameBackend
	bump func()
}

func (b *bumpBackend) CreateGame(opts *pokerface.GameOptions) (*pokerface.GameState, error) {
	b.bump() // a blind-level update arriving while the hand is being created
	return b.NativeGameBackend.CreateGame(opts)
}

// F9: blind update during hand start -> hand charged old blinds, table publishes new ones as the hand's blinds
func TestF9_BlindSnapshot(t *testing.T) {
	d := &driver{}
	var te pokertable.TableEngine
	bb := &bumpBackend{NativeGameBackend: pokertable.NewNativeGameBackend()}
	bb.bump = func() { te.UpdateBlind(2, 0, 0, 50, 100) }
	te = pokertable.NewTableEngine(pokertable.NewTableEngineOptions(), pokertable.WithGameBackend(bb))
	d.te = te
	d.settled = make(chan *pokertable.Table, 4)
	te.OnTableUpdated(d.hook)
	te.OnReadyOpenFirstTableGame(func(c, tid string, gc int, ps []*pokertable.TablePlayerState) {
		parts := map[string]int{}
		for i, p := range ps {
			parts[p.PlayerID] = i
		}
		te.SetUpTableGame(gc, parts)
	})
	te.CreateTable(pokertable.TableSetting{TableID: "t", Meta: pokertable.TableMeta{CompetitionID: "c", Rule: "default", Mode: "ct", MaxDuration: 1000, TableMaxSeatCount: 9, TableMinPlayerCount: 2, ActionTime: 10},
		Blind: pokertable.TableBlindState{Level: 1, Ante: 0, Dealer: 0, SB: 10, BB: 20}})
	for _, p := range []pokertable.JoinPlayer{{PlayerID: "A", RedeemChips: 1000, Seat: 0}, {PlayerID: "B", RedeemChips: 1000, Seat: 1}} {
		te.PlayerReserve(p)
		te.PlayerJoin(p.PlayerID)
	}
	te.StartTableGame()
	te.PlayerSettlementFinish("A")
	te.PlayerSettlementFinish("B")
	select {
	case tb := <-d.settled:
		t.Logf("hand engine blinds: sb=%d bb=%d ; published GameBlindState: level=%d sb=%d bb=%d", tb.State.GameState.Meta.Blind.SB, tb.State.GameState.Meta.Blind.BB, tb.State.GameBlindState.Level, tb.State.GameBlindState.SB, tb.State.GameBlindState.BB)
	case <-time.After(20 * time.Second):
		t.Fatal("timeout")
	}
}
