package triage

import (
	"fmt"
	"sync"
	"testing"
	"time"

	"github.com/weedbox/pokerface"
	"github.com/weedbox/pokertable"
	"github.com/weedbox/pokertable/actor"
)

type f20Call struct {
	at     time.Time
	action string
	chips  int64
}

// f20Adapter is a minimal Adapter: it hands every table update to the actor as a private
// copy (like the table engine adapter does) and records every player action it receives.
type f20Adapter struct {
	mu    sync.Mutex
	actor actor.Actor
	table *pokertable.Table
	calls []f20Call
}

func (sa *f20Adapter) record(action string, chips int64) error {
	sa.mu.Lock()
	defer sa.mu.Unlock()
	sa.calls = append(sa.calls, f20Call{at: time.Now(), action: action, chips: chips})
	return nil
}

func (sa *f20Adapter) snapshot() []f20Call {
	sa.mu.Lock()
	defer sa.mu.Unlock()
	out := make([]f20Call, len(sa.calls))
	copy(out, sa.calls)
	return out
}

func (sa *f20Adapter) SetActor(a actor.Actor) { sa.actor = a }

func (sa *f20Adapter) UpdateTableState(t *pokertable.Table) error {
	c, err := t.Clone()
	if err != nil {
		return err
	}
	sa.mu.Lock()
	sa.table = c
	sa.mu.Unlock()
	return sa.actor.UpdateTableState(c)
}

func (sa *f20Adapter) GetGamePlayerIndex(playerID string) int {
	sa.mu.Lock()
	defer sa.mu.Unlock()
	return sa.table.GamePlayerIndex(playerID)
}

func (sa *f20Adapter) GetGameState() *pokerface.GameState {
	sa.mu.Lock()
	defer sa.mu.Unlock()
	return sa.table.State.GameState
}

func (sa *f20Adapter) Pass(playerID string) error  { return sa.record("pass", 0) }
func (sa *f20Adapter) Ready(playerID string) error { return sa.record("ready", 0) }
func (sa *f20Adapter) Pay(playerID string, chips int64) error {
	return sa.record("pay", chips)
}
func (sa *f20Adapter) Check(playerID string) error { return sa.record("check", 0) }
func (sa *f20Adapter) Bet(playerID string, chips int64) error {
	return sa.record("bet", chips)
}
func (sa *f20Adapter) Call(playerID string) error  { return sa.record("call", 0) }
func (sa *f20Adapter) Fold(playerID string) error  { return sa.record("fold", 0) }
func (sa *f20Adapter) Allin(playerID string) error { return sa.record("allin", 0) }
func (sa *f20Adapter) Raise(playerID string, chipLevel int64) error {
	return sa.record("raise", chipLevel)
}
func (sa *f20Adapter) ExtendTime(playerID string, duration time.Duration) error { return nil }

const (
	f20ActionTime = 1 // seconds
	f20SB         = int64(10)
	f20BB         = int64(20)
)

// f20Hand builds the table as the engine publishes it for one hand of a three-handed table.
// gamePlayerIndexes lists the table player indexes starting from the dealer, so game player
// 0 is the dealer, 1 the small blind and 2 the big blind.
func f20Hand(gameID string, gameCount int, updatedAt int64, gamePlayerIndexes []int, event string, blindsDue bool) *pokertable.Table {
	ids := []string{"P1", "P2", "P3"}
	positions := [][]string{{"dealer"}, {"sb"}, {"bb"}}

	tablePlayers := make([]*pokertable.TablePlayerState, len(ids))
	for i, id := range ids {
		tablePlayers[i] = &pokertable.TablePlayerState{
			PlayerID:       id,
			Seat:           i,
			Bankroll:       3000,
			IsIn:           true,
			IsParticipated: true,
		}
	}

	gamePlayers := make([]*pokerface.PlayerState, len(gamePlayerIndexes))
	for gpIdx, playerIdx := range gamePlayerIndexes {
		tablePlayers[playerIdx].Positions = positions[gpIdx]
		ps := &pokerface.PlayerState{
			Idx:              gpIdx,
			Positions:        positions[gpIdx],
			Bankroll:         3000,
			InitialStackSize: 3000,
			StackSize:        3000,
			AllowedActions:   []string{},
		}
		if blindsDue && gpIdx > 0 {
			ps.AllowedActions = []string{"pay"}
		}
		gamePlayers[gpIdx] = ps
	}

	return &pokertable.Table{
		UpdateSerial: updatedAt,
		ID:           "f20-table",
		Meta: pokertable.TableMeta{
			CompetitionID:       "f20-competition",
			Rule:                pokertable.CompetitionRule_Default,
			Mode:                pokertable.CompetitionMode_CT,
			TableMaxSeatCount:   9,
			TableMinPlayerCount: 2,
			MinChipUnit:         1,
			ActionTime:          f20ActionTime,
		},
		State: &pokertable.TableState{
			Status:            pokertable.TableStateStatus_TableGamePlaying,
			SeatMap:           []int{0, 1, 2, -1, -1, -1, -1, -1, -1},
			BlindState:        &pokertable.TableBlindState{Level: 1, SB: f20SB, BB: f20BB},
			GameBlindState:    &pokertable.TableBlindState{Level: 1, SB: f20SB, BB: f20BB},
			PlayerStates:      tablePlayers,
			GameCount:         gameCount,
			GamePlayerIndexes: gamePlayerIndexes,
			GameState: &pokerface.GameState{
				GameID:    gameID,
				CreatedAt: updatedAt,
				UpdatedAt: updatedAt,
				Meta: pokerface.Meta{
					Blind:                  pokerface.BlindSetting{SB: f20SB, BB: f20BB},
					Limit:                  "no",
					HoleCardsCount:         2,
					RequiredHoleCardsCount: 0,
				},
				Status: pokerface.Status{
					MiniBet:       f20BB,
					Round:         "preflop",
					CurrentRaiser: -1,
					CurrentPlayer: -1,
					CurrentEvent:  event,
				},
				Players: gamePlayers,
			},
		},
	}
}

func f20Describe(calls []f20Call, since time.Time) string {
	s := ""
	for _, c := range calls {
		s += fmt.Sprintf("\n    +%v %s(%d)", c.at.Sub(since).Round(time.Millisecond), c.action, c.chips)
	}
	if s == "" {
		return " (none)"
	}
	return s
}


// F20: the bot runner's freshness filter is applied only to views of the hand it already knows
// (`if gs.GameID != br.curGameID {…} else if br.lastGameStateTime >= gs.UpdatedAt { return nil }`): a late or
// re-delivered view of an EARLIER hand has another hand id, passes as "a new hand", moves the remembered time
// backwards and is answered — the bot pays the blind it owed in the hand that is over, into the hand that is running
// (there it owes a different blind). The statement of C18 says the bot stays silent when its view is stale.
// The test logs what the adapter receives; on the pinned tree: hand 2 gets pay(10) for the small blind AND, after the
// old view, pay(20). On the repaired tree only pay(10).
func TestF20_BotAnswersLateViewOfEarlierHand(t *testing.T) {
	adapter := &f20Adapter{}
	a := actor.NewActor()
	a.SetAdapter(adapter)
	bot := actor.NewBotRunner("P3")
	a.SetRunner(bot)

	base := time.Now().UnixNano()
	hand1Blinds := f20Hand("f20-game-1", 1, base+1, []int{0, 1, 2}, "BlindsRequested", true)
	hand1Paid := f20Hand("f20-game-1", 1, base+2, []int{0, 1, 2}, "BlindsPaid", false)
	hand2Blinds := f20Hand("f20-game-2", 2, base+3, []int{1, 2, 0}, "BlindsRequested", true)

	start := time.Now()
	adapter.UpdateTableState(hand1Blinds)
	time.Sleep(300 * time.Millisecond)
	adapter.UpdateTableState(hand1Paid)
	handled := len(adapter.snapshot())
	t.Logf("hand 1 (P3 is big blind):%s", f20Describe(adapter.snapshot(), start))

	adapter.UpdateTableState(hand2Blinds)
	time.Sleep(300 * time.Millisecond)
	// the transport delivers the blinds request of hand 1 once more
	adapter.UpdateTableState(hand1Blinds)
	time.Sleep(500 * time.Millisecond)

	calls := adapter.snapshot()[handled:]
	t.Logf("hand 2 (P3 is small blind, owes %d):%s", f20SB, f20Describe(calls, start))
	extra := 0
	for _, c := range calls {
		if !(c.action == "pay" && c.chips == f20SB) {
			extra++
		}
	}
	if len(calls) > 1 || extra > 0 {
		t.Logf("F20 OBSERVED: the bot answered a stale view of an earlier hand (%d action(s) in hand 2, %d of them not the small blind)", len(calls), extra)
	} else {
		t.Logf("F20 not observed: the stale view was ignored")
	}
}
