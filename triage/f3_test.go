package triage

import (
	"testing"

	"github.com/weedbox/pokertable"
)

func newEngine(t *testing.T, seats int, rule string) pokertable.TableEngine {
	te := pokertable.NewTableEngine(pokertable.NewTableEngineOptions(), pokertable.WithGameBackend(pokertable.NewNativeGameBackend()))
	_, err := te.CreateTable(pokertable.TableSetting{
		TableID: "t1",
		Meta: pokertable.TableMeta{CompetitionID: "c", Rule: rule, Mode: pokertable.CompetitionMode_CT, MaxDuration: 1000,
			TableMaxSeatCount: seats, TableMinPlayerCount: 2, MinChipUnit: 1, ActionTime: 10},
		Blind: pokertable.TableBlindState{Level: 1, Ante: 0, Dealer: 0, SB: 10, BB: 20},
	})
	if err != nil {
		t.Fatal(err)
	}
	return te
}

// F3: failing leave batch mutates the table but not the seat manager
func TestF3_LeaveUnknown(t *testing.T) {
	te := newEngine(t, 9, pokertable.CompetitionRule_Default)
	te.PlayerReserve(pokertable.JoinPlayer{PlayerID: "A", RedeemChips: 1000, Seat: 3})
	te.PlayerReserve(pokertable.JoinPlayer{PlayerID: "B", RedeemChips: 1000, Seat: 4})
	before, _ := te.GetTable().GetJSON()
	err := te.PlayersLeave([]string{"A", "ghost"})
	after, _ := te.GetTable().GetJSON()
	t.Logf("err=%v changed=%v seatmap=%v players=%d", err, before != after, te.GetTable().State.SeatMap, len(te.GetTable().State.PlayerStates))
	// seat 3 now free in table, try to take it again
	err2 := te.PlayerReserve(pokertable.JoinPlayer{PlayerID: "C", RedeemChips: 1000, Seat: 3})
	t.Logf("retake seat 3: err=%v", err2)
}

// F4: mixed batch partial
func TestF4_MixedBatch(t *testing.T) {
	te := newEngine(t, 2, pokertable.CompetitionRule_Default)
	te.PlayerReserve(pokertable.JoinPlayer{PlayerID: "A", RedeemChips: 1000, Seat: 0})
	_, err := te.UpdateTablePlayers([]pokertable.JoinPlayer{{PlayerID: "B", RedeemChips: 1, Seat: 1}, {PlayerID: "C", RedeemChips: 1, Seat: -1}}, nil)
	t.Logf("err=%v players=%d seatmap=%v", err, len(te.GetTable().State.PlayerStates), te.GetTable().State.SeatMap)
	err2 := te.PlayerReserve(pokertable.JoinPlayer{PlayerID: "D", RedeemChips: 1, Seat: 1})
	t.Logf("seat 1 (table says empty) reserve D: err=%v", err2)
}

// F4b: batch update leave ok, join fails
func TestF4b_BatchUpdate(t *testing.T) {
	te := newEngine(t, 2, pokertable.CompetitionRule_Default)
	te.PlayerReserve(pokertable.JoinPlayer{PlayerID: "A", RedeemChips: 1000, Seat: 0})
	te.PlayerReserve(pokertable.JoinPlayer{PlayerID: "B", RedeemChips: 1000, Seat: 1})
	_, err := te.UpdateTablePlayers([]pokertable.JoinPlayer{{PlayerID: "C", RedeemChips: 1, Seat: 1}}, []string{"A"})
	t.Logf("err=%v players=%d", err, len(te.GetTable().State.PlayerStates))
}

// F8: add-on by a busted player is not reflected in seat manager has-chips (checked through IsParticipated after nothing... use exported API only)
