package triage

import (
	"os"
	"testing"
	"time"

	"github.com/weedbox/pokertable"
)

// F15: a player who was dealt into the running hand leaves while it is being played. The leave path
// drops that player's entry from the hand index list, so every later entry shifts by one against the
// hand engine's own indexes: actions of the remaining players are refused or routed to the wrong entry
// and at settlement the results are credited to the wrong players (or the index runs off the list).
func TestF15_ParticipantLeavesDuringHand(t *testing.T) { f15(t, false) }

// F15b: the same player first folds (it is his turn), then leaves; the two others play the hand out.
func TestF15b_FoldedParticipantLeavesDuringHand(t *testing.T) { f15(t, true) }

func f15(t *testing.T, foldFirst bool) {
	d := &driver{}
	first := make(chan *pokertable.Table, 1)
	d.onRound = func(tb *pokertable.Table) bool {
		c, _ := tb.Clone()
		select {
		case first <- c:
		default:
		}
		d.mute = true // from here on the test goroutine drives the hand
		return true
	}
	te := startTable(t, 9, pokertable.CompetitionRule_Default, d, []pokertable.JoinPlayer{
		{PlayerID: "A", RedeemChips: 1000, Seat: 0}, {PlayerID: "B", RedeemChips: 1000, Seat: 1}, {PlayerID: "C", RedeemChips: 1000, Seat: 2}})
	defer func() {
		if r := recover(); r != nil {
			t.Logf("panic: %v", r)
		}
	}()
	var left string
	select {
	case tb := <-first:
		left = tb.State.PlayerStates[tb.State.GamePlayerIndexes[0]].PlayerID
		before := []string{}
		for _, pi := range tb.State.GamePlayerIndexes {
			before = append(before, tb.State.PlayerStates[pi].PlayerID)
		}
		if foldFirst {
			t.Logf("%s (entry %d is to act) folds: %v", left, tb.State.GameState.Status.CurrentPlayer, te.PlayerFold(left))
			time.Sleep(300 * time.Millisecond)
		}
		err := te.PlayersLeave([]string{left})
		now := te.GetTable()
		after := []string{}
		for _, pi := range now.State.GamePlayerIndexes {
			after = append(after, now.State.PlayerStates[pi].PlayerID)
		}
		t.Logf("hand list before: %v; %s (entry 0) leaves during the hand: err=%v; hand list after: %v", before, left, err, after)
		for _, id := range before {
			if id != left {
				t.Logf("  %s was entry %d of the hand, is now resolved to entry %d", id, indexOf(before, id), now.FindGamePlayerIdx(id))
			}
		}
	case <-time.After(10 * time.Second):
		t.Fatal("no betting round")
	}
	d.mute = false
	d.onRound = func(*pokertable.Table) bool { return true }
	// drive the rest of the hand from here: whoever the engine resolves as current player acts
	deadline := time.After(8 * time.Second)
	for {
		select {
		case tb := <-d.settled:
			sum := int64(0)
			for _, p := range tb.State.PlayerStates {
				sum += p.Bankroll
				t.Logf("settled: %s bankroll=%d", p.PlayerID, p.Bankroll)
			}
			t.Logf("settled: result entries=%d, hand list entries=%d, sum at table=%d (%s left with 1000 although chips of theirs may be in the pot)", len(tb.State.GameState.Result.Players), len(tb.State.GamePlayerIndexes), sum, left)
			return
		case <-deadline:
			tb := te.GetTable()
			gs := tb.State.GameState
			if gs != nil {
				t.Logf("not settled after 8 s: status=%s event=%s round=%s current entry=%d", tb.State.Status, gs.Status.CurrentEvent, gs.Status.Round, gs.Status.CurrentPlayer)
				for _, id := range []string{"A", "B", "C"} {
					if id == left {
						continue
					}
					t.Logf("  %s: call → %v", id, te.PlayerCall(id))
				}
			}
			return
		case <-time.After(200 * time.Millisecond):
			tb := te.GetTable()
			if tb.State.Status != pokertable.TableStateStatus_TableGamePlaying || tb.State.GameState == nil {
				continue
			}
			cur := tb.State.GameState.Status.CurrentPlayer
			for _, id := range []string{"A", "B", "C"} {
				if id != left && tb.FindGamePlayerIdx(id) == cur {
					if err := te.PlayerCall(id); err != nil {
						if err2 := te.PlayerCheck(id); err2 != nil {
							t.Logf("  %s (resolved to entry %d): call → %v, check → %v", id, cur, err, err2)
						}
					}
				}
			}
		}
	}
}

func indexOf(a []string, s string) int {
	for i, x := range a {
		if x == s {
			return i
		}
	}
	return -1
}

// F15c: the LAST entry of the hand list (the big blind) folds when it is his turn and leaves; the entries of the
// two others do not shift, they check the hand down, and settlement then looks up hand entry 2 in a list of two.
func TestF15c_LastEntryFoldsAndLeaves(t *testing.T) {
	d := &driver{}
	first := make(chan *pokertable.Table, 1)
	d.onRound = func(tb *pokertable.Table) bool {
		c, _ := tb.Clone()
		select {
		case first <- c:
		default:
		}
		d.mute = true
		return true
	}
	te := startTable(t, 9, pokertable.CompetitionRule_Default, d, []pokertable.JoinPlayer{
		{PlayerID: "A", RedeemChips: 1000, Seat: 0}, {PlayerID: "B", RedeemChips: 1000, Seat: 1}, {PlayerID: "C", RedeemChips: 1000, Seat: 2}})
	te.OnTableErrorUpdated(func(tb *pokertable.Table, err error) { t.Logf("engine error: %v", err) })
	tb := <-first
	ids := []string{}
	for _, pi := range tb.State.GamePlayerIndexes {
		ids = append(ids, tb.State.PlayerStates[pi].PlayerID)
	}
	t.Logf("hand list: %v (entry 2 is the big blind)", ids)
	t.Logf("%s raises to 60: %v", ids[0], te.PlayerRaise(ids[0], 60))
	time.Sleep(200 * time.Millisecond)
	t.Logf("%s calls: %v", ids[1], te.PlayerCall(ids[1]))
	time.Sleep(200 * time.Millisecond)
	t.Logf("%s folds: %v", ids[2], te.PlayerFold(ids[2]))
	time.Sleep(200 * time.Millisecond)
	t.Logf("%s leaves: %v", ids[2], te.PlayersLeave([]string{ids[2]}))
	d.onRound = func(*pokertable.Table) bool { return true }
	d.mute = false
	deadline := time.After(90 * time.Second)
	for {
		select {
		case s := <-d.settled:
			sum := int64(0)
			for _, p := range s.State.PlayerStates {
				sum += p.Bankroll
				t.Logf("settled: %s bankroll=%d", p.PlayerID, p.Bankroll)
			}
			t.Logf("settled: %d result entries, %d hand-list entries; chips at the table %d + 1000 taken away by %s = %d, brought in 3000", len(s.State.GameState.Result.Players), len(s.State.GamePlayerIndexes), sum, ids[2], sum+1000)
			return
		case <-deadline:
			x := te.GetTable()
			t.Logf("not settled after 90 s: status=%s event=%s round=%s current entry=%d", x.State.Status, x.State.GameState.Status.CurrentEvent, x.State.GameState.Status.Round, x.State.GameState.Status.CurrentPlayer)
			return
		case <-time.After(200 * time.Millisecond):
			x := te.GetTable()
			if x.State.Status != pokertable.TableStateStatus_TableGamePlaying || x.State.GameState == nil {
				continue
			}
			cur := x.State.GameState.Status.CurrentPlayer
			for _, id := range ids[:2] {
				if x.FindGamePlayerIdx(id) == cur {
					if err := te.PlayerCheck(id); err != nil {
						te.PlayerCall(id)
					}
				}
			}
		}
	}
}

// F15d: entry 0 leaves when it is his turn; the two others — now resolved to entries 0 and 1 — fold "for" the
// entries before them, which ends the hand; settlement then credits result i to the shifted list.
func TestF15d_SettlementAfterParticipantLeft(t *testing.T) {
	if os.Getenv("F15D") == "" {
		t.Skip("set F15D=1: on the pinned tree this history ends in an index-out-of-range panic inside the engine's settlement goroutine, which kills the test binary")
	}
	d := &driver{}
	first := make(chan *pokertable.Table, 1)
	d.onRound = func(tb *pokertable.Table) bool {
		c, _ := tb.Clone()
		select {
		case first <- c:
		default:
		}
		d.mute = true
		return true
	}
	te := startTable(t, 9, pokertable.CompetitionRule_Default, d, []pokertable.JoinPlayer{
		{PlayerID: "A", RedeemChips: 1000, Seat: 0}, {PlayerID: "B", RedeemChips: 1000, Seat: 1}, {PlayerID: "C", RedeemChips: 1000, Seat: 2}})
	tb := <-first
	ids := []string{}
	for _, pi := range tb.State.GamePlayerIndexes {
		ids = append(ids, tb.State.PlayerStates[pi].PlayerID)
	}
	t.Logf("hand list: %v; entry %d is to act; sb=%s paid 10, bb=%s paid 20", ids, tb.State.GameState.Status.CurrentPlayer, ids[1], ids[2])
	t.Logf("%s (entry 0) leaves with his 1000: %v", ids[0], te.PlayersLeave([]string{ids[0]}))
	d.mute = false
	d.onRound = func(*pokertable.Table) bool { return true }
	t.Logf("hand waits on entry 0 (%s, gone). %s folds: %v", ids[0], ids[1], te.PlayerFold(ids[1]))
	time.Sleep(300 * time.Millisecond)
	x := te.GetTable()
	t.Logf("hand now waits on entry %d (%s). %s folds: %v", x.State.GameState.Status.CurrentPlayer, ids[x.State.GameState.Status.CurrentPlayer], ids[2], te.PlayerFold(ids[2]))
	select {
	case s := <-d.settled:
		for _, r := range s.State.GameState.Result.Players {
			t.Logf("result entry %d (%s): changed %+d", r.Idx, ids[r.Idx], r.Changed)
		}
		for _, p := range s.State.PlayerStates {
			t.Logf("settled: %s bankroll=%d", p.PlayerID, p.Bankroll)
		}
	case <-time.After(10 * time.Second):
		t.Logf("not settled after 10 s: status=%s", te.GetTable().State.Status)
	}
}
