package triage

import (
	"testing"
	"time"

	"github.com/weedbox/pokertable"
)

// F2: fold to a 3-bet pre-flop sets FtCB without FtCB chance
func TestF2_FtCB(t *testing.T) {
	d := &driver{}
	turn := 0
	d.onRound = func(tb *pokertable.Table) bool {
		id, acts := curPlayer(tb)
		turn++
		switch turn {
		case 1:
			t.Logf("turn1 %s raise 60 %v: %v", id, acts, d.te.PlayerRaise(id, 60))
		case 2:
			t.Logf("turn2 %s raise 180 %v: %v", id, acts, d.te.PlayerRaise(id, 180))
		default:
			t.Logf("turn%d %s fold %v: %v", turn, id, acts, d.te.PlayerFold(id))
		}
		return true
	}
	startTable(t, 9, "default", d, []pokertable.JoinPlayer{{PlayerID: "A", RedeemChips: 1000, Seat: 0}, {PlayerID: "B", RedeemChips: 1000, Seat: 1}, {PlayerID: "C", RedeemChips: 1000, Seat: 2}})
	select {
	case tb := <-d.settled:
		for _, p := range tb.State.PlayerStates {
			s := p.GameStatistics
			t.Logf("%s fold=%v Ft3BChance=%v Ft3B=%v FtCBChance=%v FtCB=%v 3B=%v", p.PlayerID, s.IsFold, s.IsFt3BChance, s.IsFt3B, s.IsFtCBChance, s.IsFtCB, s.Is3B)
		}
	case <-time.After(25 * time.Second):
		t.Fatal("timeout")
	}
}
