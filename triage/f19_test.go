package triage

import (
	"os"
	"runtime"
	"strings"
	"sync/atomic"
	"testing"
	"time"

	"github.com/weedbox/pokertable/open_game_manager"
)

// F19: the open-game gate is set up again while ready signals of the previous set-up are still pending — an
// interleaving C09 quantifies over. Setup re-uses the gate's one ready group: it stops it and adds the new
// participants (write lock) while the group's goroutine may still be validating a pending signal, which takes
// the read lock twice (F18's hazard in the dependency). The test logs whether Setup stopped returning.
func TestF19_ResetupWithPendingSignals(t *testing.T) {
	if os.Getenv("F19") == "" {
		t.Skip("set F19=1")
	}
	gate := open_game_manager.NewOpenGameManager(open_game_manager.OpenGameOption{Timeout: 30, OnOpenGameReady: func(state open_game_manager.OpenGameState) {}})
	participants := map[string]int{"a": 0, "b": 1, "c": 2}
	var round int64
	done := make(chan struct{})
	go func() {
		defer close(done)
		for r := 1; r <= 200000; r++ {
			atomic.StoreInt64(&round, int64(r))
			gate.Setup(r, participants)
			gate.Ready("a")
			gate.Ready("b")
		}
	}()
	last, still := int64(0), 0
	for {
		select {
		case <-done:
			t.Logf("200000 re-set-ups with two pending signals each completed without a deadlock in this run")
			return
		case <-time.After(2 * time.Second):
		}
		now := atomic.LoadInt64(&round)
		if now != last {
			last, still = now, 0
			continue
		}
		if still++; still < 3 {
			continue
		}
		buf := make([]byte, 1<<20)
		buf = buf[:runtime.Stack(buf, true)]
		var where []string
		for _, g := range strings.Split(string(buf), "\n\n") {
			if strings.Contains(g, "RWMutex") && strings.Contains(g, "syncsaga") {
				for _, l := range strings.Split(g, "\n") {
					if strings.Contains(l, "syncsaga.(*ReadyGroup)") || strings.Contains(l, "open_game_manager.(") {
						where = append(where, strings.TrimSpace(strings.SplitN(l, "(0x", 2)[0]))
					}
				}
				where = append(where, "--")
			}
		}
		t.Logf("no progress for 6 s at set-up %d: deadlocked. Goroutines waiting for the ready group's RWMutex:\n  %s", now, strings.Join(where, "\n  "))
		return
	}
}
