package triage

import (
	"testing"
	"time"

	"github.com/weedbox/pokertable"
	"github.com/weedbox/pokertable/actor"
)

// F7: observer sees deck / hole cards in snapshots whose status is not playing/settled
func TestF7_ObserverLeak(t *testing.T) {
	d := &driver{}
	leaks := map[string]int{}
	var a actor.Actor
	paused := false
	d.onRound = func(tb *pokertable.Table) bool {
		return false
	}
	obs := actor.NewObserverRunner()
	obs.OnTableStateUpdated(func(tb *pokertable.Table) {
		if tb.State.GameState == nil {
			return
		}
		hole := 0
		for _, p := range tb.State.GameState.Players {
			hole += len(p.HoleCards)
		}
		if len(tb.State.GameState.Meta.Deck) > 0 || hole > 0 {
			if tb.State.GameState.Status.CurrentEvent != "GameClosed" {
				leaks[string(tb.State.Status)+"/"+tb.State.GameState.Status.CurrentEvent]++
			}
		}
	})
	opts := pokertable.NewTableEngineOptions()
	te := pokertable.NewTableEngine(opts, pokertable.WithGameBackend(pokertable.NewNativeGameBackend()))
	d.te = te
	d.settled = make(chan *pokertable.Table, 16)
	a = actor.NewActor()
	te.OnTableUpdated(func(tb *pokertable.Table) {
		if a.GetTable() != nil {
			a.GetTable().UpdateTableState(tb)
		}
		d.hook(tb)
	})
	te.OnGamePlayerActionUpdated(func(pokertable.TablePlayerGameAction) {
		if !paused {
			paused = true
			te.PauseTable() // external pause request arriving while a hand is running
		}
	})
	te.OnReadyOpenFirstTableGame(func(c, tid string, gc int, ps []*pokertable.TablePlayerState) {
		parts := map[string]int{}
		for i, p := range ps {
			parts[p.PlayerID] = i
		}
		te.SetUpTableGame(gc, parts)
	})
	tb, _ := te.CreateTable(pokertable.TableSetting{
		TableID: "t1",
		Meta: pokertable.TableMeta{CompetitionID: "c", Rule: "default", Mode: pokertable.CompetitionMode_CT, MaxDuration: 1000,
			TableMaxSeatCount: 9, TableMinPlayerCount: 2, MinChipUnit: 1, ActionTime: 10},
		Blind: pokertable.TableBlindState{Level: 1, Ante: 0, Dealer: 0, SB: 10, BB: 20},
	})
	a.SetAdapter(actor.NewTableEngineAdapter(te, tb))
	a.SetRunner(obs)
	for _, p := range []pokertable.JoinPlayer{{PlayerID: "A", RedeemChips: 1000, Seat: 0}, {PlayerID: "B", RedeemChips: 1000, Seat: 1}} {
		te.PlayerReserve(p)
		te.PlayerJoin(p.PlayerID)
	}
	te.StartTableGame()
	te.PlayerSettlementFinish("A")
	te.PlayerSettlementFinish("B")
	time.Sleep(3 * time.Second)
	t.Logf("observer saw deck/hole cards in statuses: %v", leaks)
	t.Logf("status sequence: %v", d.statuses)
}
