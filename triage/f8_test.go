package triage

import (
	"testing"
	"time"

	"github.com/weedbox/pokerface"
	"github.com/weedbox/pokertable"
)

// F8: busted player adds on (PlayerRedeemChips) between hands; is he dealt into the next hand?
func TestF8_AddOnBusted(t *testing.T) {
	d := &driver{}
	hand := 0
	d.onRound = func(tb *pokertable.Table) bool {
		if tb.State.GameCount == 1 {
			id, acts := curPlayer(tb)
			// A and B go all-in in hand 1, C folds
			if id == "C" {
				d.te.PlayerFold(id)
				return true
			}
			if has(acts, "allin") {
				d.te.PlayerAllin(id)
				return true
			}
		}
		return false
	}
	_ = hand
	te := startTable(t, 9, "default", d, []pokertable.JoinPlayer{{PlayerID: "A", RedeemChips: 1000, Seat: 0}, {PlayerID: "B", RedeemChips: 1000, Seat: 1}, {PlayerID: "C", RedeemChips: 1000, Seat: 2}})
	tb := <-d.settled
	busted := ""
	for _, p := range tb.State.PlayerStates {
		t.Logf("after hand1: %s bankroll=%d", p.PlayerID, p.Bankroll)
		if p.Bankroll == 0 {
			busted = p.PlayerID
		}
	}
	if busted == "" {
		t.Skip("split pot, nobody busted")
	}
	time.Sleep(300 * time.Millisecond) // continueGame has refreshed has-chips by now (runs right after settle)
	d.mute = true
	err := te.PlayerRedeemChips(pokertable.JoinPlayer{PlayerID: busted, RedeemChips: 700})
	d.mute = false
	t.Logf("add-on for %s: err=%v", busted, err)
	for _, id := range []string{"A", "B", "C"} {
		te.PlayerSettlementFinish(id)
	}
	time.Sleep(1500 * time.Millisecond)
	for _, id := range []string{"A", "B", "C"} {
		te.PlayerSettlementFinish(id)
	}
	tb2 := <-d.settled
	t.Logf("hand %d: game players=%d", tb2.State.GameCount, len(tb2.State.GamePlayerIndexes))
	for _, p := range tb2.State.PlayerStates {
		t.Logf("hand2: %s bankroll=%d in=%v participated=%v", p.PlayerID, p.Bankroll, p.IsIn, p.IsParticipated)
	}
}

// F10: short deck, join order != seat order
func TestF10_ShortDeckOrder(t *testing.T) {
	d := &driver{}
	opened := make(chan *pokertable.Table, 4)
	te := pokertable.NewTableEngine(pokertable.NewTableEngineOptions(), pokertable.WithGameBackend(pokertable.NewNativeGameBackend()))
	d.te = te
	d.settled = make(chan *pokertable.Table, 16)
	te.OnTableUpdated(func(tb *pokertable.Table) {
		if tb.State.Status == pokertable.TableStateStatus_TableGamePlaying && tb.State.GameState != nil && tb.State.GameState.Status.CurrentEvent == pokerface.GameEventSymbols[pokerface.GameEvent_ReadyRequested] {
			c, _ := tb.Clone()
			select {
			case opened <- c:
			default:
			}
		}
	})
	te.OnReadyOpenFirstTableGame(func(c, tid string, gc int, ps []*pokertable.TablePlayerState) {
		parts := map[string]int{}
		for i, p := range ps {
			parts[p.PlayerID] = i
		}
		te.SetUpTableGame(gc, parts)
	})
	te.CreateTable(pokertable.TableSetting{TableID: "t", Meta: pokertable.TableMeta{CompetitionID: "c", Rule: pokertable.CompetitionRule_ShortDeck, Mode: "ct", MaxDuration: 1000, TableMaxSeatCount: 9, TableMinPlayerCount: 2, ActionTime: 10},
		Blind: pokertable.TableBlindState{Level: 1, Ante: 10, Dealer: 20, SB: 0, BB: 0}})
	for _, p := range []pokertable.JoinPlayer{{PlayerID: "P1", RedeemChips: 1000, Seat: 5}, {PlayerID: "P2", RedeemChips: 1000, Seat: 2}, {PlayerID: "P3", RedeemChips: 1000, Seat: 7}, {PlayerID: "P4", RedeemChips: 1000, Seat: 0}} {
		te.PlayerReserve(p)
		te.PlayerJoin(p.PlayerID)
	}
	te.StartTableGame()
	for _, id := range []string{"P1", "P2", "P3", "P4"} {
		te.PlayerSettlementFinish(id)
	}
	select {
	case tb := <-opened:
		seats := []int{}
		for _, pi := range tb.State.GamePlayerIndexes {
			seats = append(seats, tb.State.PlayerStates[pi].Seat)
		}
		t.Logf("dealer seat=%d, hand order by seat=%v (clockwise would be ascending mod 9 from dealer)", tb.State.CurrentDealerSeat, seats)
	case <-time.After(10 * time.Second):
		t.Fatal("timeout")
	}
}
