package triage

import (
	"testing"
	"time"

	"github.com/weedbox/pokertable"
)

// F6: CloseTable during the open-game wait; a new hand still opens
func TestF6_OpenAfterClose(t *testing.T) {
	d := &driver{}
	te := startTable(t, 9, "default", d, []pokertable.JoinPlayer{{PlayerID: "A", RedeemChips: 1000, Seat: 0}, {PlayerID: "B", RedeemChips: 1000, Seat: 1}})
	<-d.settled
	time.Sleep(1500 * time.Millisecond) // continue interval (1s) elapsed: next hand has been set up, waiting for settlement-finished signals (2s timeout)
	t.Logf("before close: status=%s gameCount=%d", te.GetTable().State.Status, te.GetTable().State.GameCount)
	te.CloseTable()
	t.Logf("after close: status=%s", te.GetTable().State.Status)
	time.Sleep(3 * time.Second)
	t.Logf("3s later: status=%s gameCount=%d gameStateNil=%v", te.GetTable().State.Status, te.GetTable().State.GameCount, te.GetTable().State.GameState == nil)
}

// F11: wedge with a waiting newcomer after a bust
func TestF11_Wedge(t *testing.T) {
	d := &driver{}
	first := true
	d.onRound = func(tb *pokertable.Table) bool {
		id, acts := curPlayer(tb)
		if first {
			first = false
			// newcomer takes a seat while hand 1 runs
			d.mute = true
			d.te.PlayerReserve(pokertable.JoinPlayer{PlayerID: "C", RedeemChips: 1000, Seat: 5})
			d.te.PlayerJoin("C")
			d.mute = false
		}
		if has(acts, "allin") {
			d.te.PlayerAllin(id)
			return true
		}
		return false
	}
	te := startTable(t, 9, "default", d, []pokertable.JoinPlayer{{PlayerID: "A", RedeemChips: 1000, Seat: 0}, {PlayerID: "B", RedeemChips: 1000, Seat: 1}})
	tb := <-d.settled
	for _, p := range tb.State.PlayerStates {
		t.Logf("after hand1: %s bankroll=%d in=%v", p.PlayerID, p.Bankroll, p.IsIn)
	}
	for i := 0; i < 3; i++ {
		for _, id := range []string{"A", "B", "C"} {
			te.PlayerSettlementFinish(id)
		}
		time.Sleep(2 * time.Second)
	}
	alive := 0
	for _, p := range te.GetTable().State.PlayerStates {
		if p.Bankroll > 0 {
			alive++
		}
	}
	t.Logf("6s later: status=%s gameCount=%d alive=%d (min 2)", te.GetTable().State.Status, te.GetTable().State.GameCount, alive)
}
