package triage

import (
	"testing"

	"github.com/weedbox/pokertable/seat_manager"
)

// F1: literal modulus 9 with a 10-seat table
func TestF1_TenSeats(t *testing.T) {
	sm := seat_manager.NewSeatManager(10, seat_manager.Rule_Default)
	if err := sm.AssignSeats(map[string]int{"A": 7, "B": 8, "C": 9}); err != nil {
		t.Fatal(err)
	}
	sm.JoinPlayers([]string{"A", "B", "C"})
	if err := sm.InitPositions(false); err != nil {
		t.Fatal("init:", err)
	}
	t.Logf("init: D=%d SB=%d BB=%d", sm.CurrentDealerSeatID(), sm.CurrentSBSeatID(), sm.CurrentBBSeatID())
	for i := 0; i < 4; i++ {
		err := sm.RotatePositions()
		t.Logf("rot%d: err=%v D=%d SB=%d BB=%d", i, err, sm.CurrentDealerSeatID(), sm.CurrentSBSeatID(), sm.CurrentBBSeatID())
	}
}

func TestF1_SixSeats(t *testing.T) {
	sm := seat_manager.NewSeatManager(6, seat_manager.Rule_Default)
	if err := sm.AssignSeats(map[string]int{"A": 1, "B": 2, "C": 4}); err != nil {
		t.Fatal(err)
	}
	sm.JoinPlayers([]string{"A", "B", "C"})
	err := sm.InitPositions(false)
	t.Logf("init: err=%v D=%d SB=%d BB=%d", err, sm.CurrentDealerSeatID(), sm.CurrentSBSeatID(), sm.CurrentBBSeatID())
	for i := 0; i < 4; i++ {
		err := sm.RotatePositions()
		t.Logf("rot%d: err=%v D=%d SB=%d BB=%d", i, err, sm.CurrentDealerSeatID(), sm.CurrentSBSeatID(), sm.CurrentBBSeatID())
	}
}

// F12: RandomAssignSeats accepts an already seated id
func TestF12_DupRandom(t *testing.T) {
	sm := seat_manager.NewSeatManager(9, seat_manager.Rule_Default)
	sm.AssignSeats(map[string]int{"A": 0})
	err := sm.RandomAssignSeats([]string{"A"})
	n := 0
	for _, sp := range sm.Seats() {
		if sp != nil && sp.ID == "A" {
			n++
		}
	}
	t.Logf("err=%v seatsHoldingA=%d", err, n)
}
