package triage

import (
	"testing"
	"time"

	"github.com/weedbox/pokertable"
)

// F16: the player whose turn it is submits "pass" although the hand does not allow him to pass (he faces a
// bet and may fold, call or raise). pokerface's Pass ignores a pass that is not allowed instead of rejecting
// it, and the hand wrapper validates only whose turn it is: the engine reports success, records "pass" as the
// table's last player action and publishes an action event — for an action that was never applied.
func TestF16_PassNotAllowedIsAccepted(t *testing.T) {
	d := &driver{}
	first := make(chan *pokertable.Table, 1)
	d.onRound = func(tb *pokertable.Table) bool {
		c, _ := tb.Clone()
		select {
		case first <- c:
		default:
		}
		d.mute = true
		return true
	}
	te := startTable(t, 9, pokertable.CompetitionRule_Default, d, []pokertable.JoinPlayer{
		{PlayerID: "A", RedeemChips: 1000, Seat: 0}, {PlayerID: "B", RedeemChips: 1000, Seat: 1}, {PlayerID: "C", RedeemChips: 1000, Seat: 2}})
	var events []pokertable.TablePlayerGameAction
	te.OnGamePlayerActionUpdated(func(a pokertable.TablePlayerGameAction) { events = append(events, a) })
	tb := <-first
	id, acts := curPlayer(tb)
	t.Logf("%s is to act, allowed: %v", id, acts)
	before := te.GetTable()
	beforeCur := before.State.GameState.Status.CurrentPlayer
	err := te.PlayerPass(id)
	time.Sleep(300 * time.Millisecond)
	after := te.GetTable()
	t.Logf("PlayerPass(%s) → %v", id, err)
	if after.State.LastPlayerGameAction != nil {
		t.Logf("table's last player action: %s %s", after.State.LastPlayerGameAction.PlayerID, after.State.LastPlayerGameAction.Action)
	}
	t.Logf("action events published: %d; hand still waits on entry %d (was %d)", len(events), after.State.GameState.Status.CurrentPlayer, beforeCur)
}
