package triage

import (
	"os"
	"runtime"
	"strings"
	"sync/atomic"
	"testing"
	"time"

	"github.com/weedbox/pokertable"
)

// F18: reservations, sit-ins and departures in quick succession on one table (the history of F17, on the
// repaired tree). syncsaga's ReadyGroup.validate takes the group's read lock and calls the default validator,
// which takes it again; when the next reservation's ReadyGroup.Add — called under the engine mutex — asks for
// the write lock in between, the second read lock queues behind the writer and the writer waits for the first:
// UpdateTablePlayers never returns, and with it every later membership operation. The test logs whether and
// where it stopped (gated, F18=1: it needs up to a minute).
func TestF18_ReserveWhileReadyGroupValidates(t *testing.T) {
	if os.Getenv("F18") == "" {
		t.Skip("set F18=1")
	}
	engine := pokertable.NewTableEngine(pokertable.NewTableEngineOptions(), pokertable.WithGameBackend(pokertable.NewNativeGameBackend()))
	_, err := engine.CreateTable(pokertable.TableSetting{
		TableID: "f18",
		Meta: pokertable.TableMeta{CompetitionID: "f18", Rule: pokertable.CompetitionRule_Default, Mode: pokertable.CompetitionMode_CT,
			MaxDuration: 60, TableMaxSeatCount: 6, TableMinPlayerCount: 2, MinChipUnit: 10, ActionTime: 10},
		Blind:       pokertable.TableBlindState{Level: 1, Ante: 0, Dealer: 0, SB: 10, BB: 20},
		JoinPlayers: []pokertable.JoinPlayer{{PlayerID: "A", RedeemChips: 1000, Seat: 0}, {PlayerID: "B", RedeemChips: 1000, Seat: 3}},
	})
	if err != nil {
		t.Fatal(err)
	}
	for _, id := range []string{"A", "B"} {
		if err := engine.PlayerJoin(id); err != nil {
			t.Fatal(err)
		}
	}
	newcomers := []pokertable.JoinPlayer{{PlayerID: "N1", RedeemChips: 1000, Seat: pokertable.UnsetValue}, {PlayerID: "N2", RedeemChips: 1000, Seat: pokertable.UnsetValue}, {PlayerID: "N3", RedeemChips: 1000, Seat: pokertable.UnsetValue}}
	ids := []string{"N1", "N2", "N3"}
	var round int64
	done := make(chan struct{})
	go func() {
		defer close(done)
		for r := 1; r <= 20000; r++ {
			atomic.StoreInt64(&round, int64(r))
			if _, err := engine.UpdateTablePlayers(newcomers, nil); err != nil {
				return
			}
			for _, id := range ids {
				engine.PlayerJoin(id)
			}
			engine.PlayersLeave(ids)
		}
	}()
	last, still := int64(0), 0
	for {
		select {
		case <-done:
			t.Logf("20000 rounds completed without a deadlock in this run")
			return
		case <-time.After(2 * time.Second):
		}
		now := atomic.LoadInt64(&round)
		if now != last {
			last, still = now, 0
			continue
		}
		if still++; still < 3 {
			continue
		}
		buf := make([]byte, 1<<20)
		buf = buf[:runtime.Stack(buf, true)]
		var where []string
		for _, g := range strings.Split(string(buf), "\n\n") {
			if strings.Contains(g, "RWMutex") && strings.Contains(g, "syncsaga") {
				lines := strings.Split(g, "\n")
				for _, l := range lines {
					if strings.Contains(l, "syncsaga.(*ReadyGroup)") || strings.Contains(l, "pokertable.(*tableEngine)") {
						where = append(where, strings.TrimSpace(strings.SplitN(l, "(0x", 2)[0]))
					}
				}
				where = append(where, "--")
			}
		}
		t.Logf("no progress for 6 s at round %d: deadlocked. Goroutines waiting for the ready group's RWMutex:\n  %s", now, strings.Join(where, "\n  "))
		return
	}
}
