package triage

import (
	"sync"
	"testing"
	"time"

	"github.com/weedbox/pokerface"
	"github.com/weedbox/pokertable"
)

type driver struct {
	te       pokertable.TableEngine
	mu       sync.Mutex
	onRound  func(tb *pokertable.Table) bool // return true if handled
	settled  chan *pokertable.Table
	snaps    []string
	statuses []string
	mute     bool
}

func curPlayer(tb *pokertable.Table) (string, []string) {
	gs := tb.State.GameState
	idx := gs.Status.CurrentPlayer
	if idx < 0 || idx >= len(tb.State.GamePlayerIndexes) {
		return "", nil
	}
	return tb.State.PlayerStates[tb.State.GamePlayerIndexes[idx]].PlayerID, gs.Players[idx].AllowedActions
}

func has(a []string, s string) bool {
	for _, x := range a {
		if x == s {
			return true
		}
	}
	return false
}

func (d *driver) hook(tb *pokertable.Table) {
	if d.mute {
		return
	}
	d.statuses = append(d.statuses, string(tb.State.Status))
	switch tb.State.Status {
	case pokertable.TableStateStatus_TableGamePlaying:
		gs := tb.State.GameState
		ev := pokerface.GameEventBySymbol[gs.Status.CurrentEvent]
		switch ev {
		case pokerface.GameEvent_ReadyRequested:
			for _, pi := range tb.State.GamePlayerIndexes {
				d.te.PlayerReady(tb.State.PlayerStates[pi].PlayerID)
			}
		case pokerface.GameEvent_AnteRequested:
			for _, pi := range tb.State.GamePlayerIndexes {
				d.te.PlayerPay(tb.State.PlayerStates[pi].PlayerID, gs.Meta.Ante)
			}
		case pokerface.GameEvent_BlindsRequested:
			for gi, pi := range tb.State.GamePlayerIndexes {
				if gs.HasPosition(gi, "sb") {
					d.te.PlayerPay(tb.State.PlayerStates[pi].PlayerID, gs.Meta.Blind.SB)
				} else if gs.HasPosition(gi, "bb") {
					d.te.PlayerPay(tb.State.PlayerStates[pi].PlayerID, gs.Meta.Blind.BB)
				}
			}
		case pokerface.GameEvent_RoundStarted:
			if d.onRound != nil && d.onRound(tb) {
				return
			}
			id, acts := curPlayer(tb)
			if has(acts, "check") {
				d.te.PlayerCheck(id)
			} else if has(acts, "call") {
				d.te.PlayerCall(id)
			} else if has(acts, "fold") {
				d.te.PlayerFold(id)
			}
		}
	case pokertable.TableStateStatus_TableGameSettled:
		c, _ := tb.Clone()
		select {
		case d.settled <- c:
		default:
		}
	}
}

func startTable(t *testing.T, seats int, rule string, d *driver, players []pokertable.JoinPlayer) pokertable.TableEngine {
	opts := pokertable.NewTableEngineOptions()
	te := pokertable.NewTableEngine(opts, pokertable.WithGameBackend(pokertable.NewNativeGameBackend()))
	d.te = te
	d.settled = make(chan *pokertable.Table, 16)
	te.OnTableUpdated(d.hook)
	te.OnReadyOpenFirstTableGame(func(c, tid string, gc int, ps []*pokertable.TablePlayerState) {
		parts := map[string]int{}
		for i, p := range ps {
			parts[p.PlayerID] = i
		}
		te.SetUpTableGame(gc, parts)
	})
	_, err := te.CreateTable(pokertable.TableSetting{
		TableID: "t1",
		Meta: pokertable.TableMeta{CompetitionID: "c", Rule: rule, Mode: pokertable.CompetitionMode_CT, MaxDuration: 1000,
			TableMaxSeatCount: seats, TableMinPlayerCount: 2, MinChipUnit: 1, ActionTime: 10},
		Blind: pokertable.TableBlindState{Level: 1, Ante: 0, Dealer: 0, SB: 10, BB: 20},
	})
	if err != nil {
		t.Fatal(err)
	}
	for _, p := range players {
		if err := te.PlayerReserve(p); err != nil {
			t.Fatal(err)
		}
		te.PlayerJoin(p.PlayerID)
	}
	te.StartTableGame()
	for _, p := range players {
		te.PlayerSettlementFinish(p.PlayerID)
	}
	return te
}

// F5: add-on during a hand is lost at settlement
func TestF5_AddOnDuringHand(t *testing.T) {
	d := &driver{}
	done := false
	d.onRound = func(tb *pokertable.Table) bool {
		if !done {
			done = true
			d.te.PlayerRedeemChips(pokertable.JoinPlayer{PlayerID: "A", RedeemChips: 500})
		}
		return false
	}
	startTable(t, 9, pokertable.CompetitionRule_Default, d, []pokertable.JoinPlayer{{PlayerID: "A", RedeemChips: 1000, Seat: 0}, {PlayerID: "B", RedeemChips: 1000, Seat: 1}})
	select {
	case tb := <-d.settled:
		sum := int64(0)
		for _, p := range tb.State.PlayerStates {
			sum += p.Bankroll
			t.Logf("%s bankroll=%d", p.PlayerID, p.Bankroll)
		}
		t.Logf("sum=%d expected=2500", sum)
	case <-time.After(20 * time.Second):
		t.Fatal("timeout")
	}
}
