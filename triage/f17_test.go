package triage

import (
	"os"
	"testing"

	"github.com/weedbox/pokertable"
)

// F17: newcomers are reserved in a batch, sit in one after the other, and leave again. When the last of
// them sits in, the "everybody is in" completion of the engine's auto-sit-in group runs on a goroutine of its
// own; on the pinned tree it walked the table's live player list without the engine mutex and indexed it
// again inside the loop, so a PlayersLeave that shrank the list meanwhile made it index out of range — a
// panic on a library goroutine, i.e. the whole process goes down. The run is gated (F17=1) because on the
// pinned tree it kills the test binary (typically within a few dozen rounds):
//
//	panic: runtime error: index out of range [2] with length 2
//	github.com/weedbox/pokertable.(*tableEngine).playersAutoIn.func2
//
// On the repaired tree all rounds complete.
func TestF17_LeaveWhileAutoSitInCompletes(t *testing.T) {
	if os.Getenv("F17") == "" {
		t.Skip("set F17=1 (crashes the test binary on the pinned tree)")
	}
	engine := pokertable.NewTableEngine(pokertable.NewTableEngineOptions(), pokertable.WithGameBackend(pokertable.NewNativeGameBackend()))
	_, err := engine.CreateTable(pokertable.TableSetting{
		TableID: "f17",
		Meta: pokertable.TableMeta{CompetitionID: "f17", Rule: pokertable.CompetitionRule_Default, Mode: pokertable.CompetitionMode_CT,
			MaxDuration: 60, TableMaxSeatCount: 6, TableMinPlayerCount: 2, MinChipUnit: 10, ActionTime: 10},
		Blind:       pokertable.TableBlindState{Level: 1, Ante: 0, Dealer: 0, SB: 10, BB: 20},
		JoinPlayers: []pokertable.JoinPlayer{{PlayerID: "A", RedeemChips: 1000, Seat: 0}, {PlayerID: "B", RedeemChips: 1000, Seat: 3}},
	})
	if err != nil {
		t.Fatal(err)
	}
	for _, id := range []string{"A", "B"} {
		if err := engine.PlayerJoin(id); err != nil {
			t.Fatal(err)
		}
	}
	newcomers := []pokertable.JoinPlayer{{PlayerID: "N1", RedeemChips: 1000, Seat: pokertable.UnsetValue}, {PlayerID: "N2", RedeemChips: 1000, Seat: pokertable.UnsetValue}, {PlayerID: "N3", RedeemChips: 1000, Seat: pokertable.UnsetValue}}
	ids := []string{"N1", "N2", "N3"}
	for round := 1; round <= 2000; round++ {
		if _, err := engine.UpdateTablePlayers(newcomers, nil); err != nil {
			t.Fatalf("round %d: %v", round, err)
		}
		for _, id := range ids {
			if err := engine.PlayerJoin(id); err != nil {
				t.Fatalf("round %d: join %s: %v", round, id, err)
			}
		}
		if err := engine.PlayersLeave(ids); err != nil {
			t.Fatalf("round %d: leave: %v", round, err)
		}
	}
	t.Logf("2000 rounds of reserve ×3 → sit in ×3 → leave ×3 completed")
}
