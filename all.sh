#!/bin/sh
# Runs every claimed check (tier $1, default quick) and prints one line each.
# quick: all in parallel; thorough: three at a time (each thorough run already uses 8 child processes).
cd "$(dirname "$0")"
tier="${1:-quick}"
ids=$(python3 -c "import json;print(' '.join(c['property_id'] for c in json.load(open('MANIFEST.json'))['checks']))")
width=20
[ "$tier" = "thorough" ] && width=3
n=0
for id in $ids; do
  ( out=$(./run.sh "$id" "$tier" 2>&1); code=$?; echo "$out" | grep -E "^($id |VIOLATION|WARNING)" | sed "s/^/[$code] /" ) &
  n=$((n+1))
  if [ $((n % width)) -eq 0 ]; then wait; fi
done
wait
