#!/bin/sh
# Runs every claimed check (tier $1, default quick) in parallel and prints one line each.
cd "$(dirname "$0")"
tier="${1:-quick}"
ids=$(python3 -c "import json;print(' '.join(c['property_id'] for c in json.load(open('MANIFEST.json'))['checks']))")
rc=0
for id in $ids; do
  ( out=$(./run.sh "$id" "$tier" 2>&1); code=$?; echo "$out" | grep -E "^($id |VIOLATION|WARNING)" | sed "s/^/[$code] /" ) &
done
wait
