#!/bin/sh
# Build the analyzer offline from the module cache (x/tools v0.29.0).
set -e
cd "$(dirname "$0")"
export GOFLAGS=-mod=mod GOPROXY=off GOSUMDB=off GOTOOLCHAIN=local
unset GOWORK
mkdir -p bin evidence replays
cd tablelint && go build -o ../bin/tablelint .
